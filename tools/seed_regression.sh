#!/bin/bash
# Re-runs every stored seeded change against the quick check of its own property
# (and of the other properties named in caught_by) on the current tree.
# usage: seed_regression.sh [id ...]   prints one line per (seed, property)
cd /verif
IDS=${@:-$(ls seeded)}
for id in $IDS; do
  props=$(python3 - "$id" <<'PY'
import json,sys,re
m=json.load(open(f'/verif/seeded/{sys.argv[1]}/meta.json'))
own=m['property']
others=[p for p in re.findall(r'C\d\d', m.get('caught_by','')) if p!=own]
seen=[]
for p in [own]+others:
    if p not in seen: seen.append(p)
print(' '.join(seen[:int(__import__('os').environ.get('NPROPS','3'))]))
PY
)
  for P in $props; do
    out=$(bin/mutant seeded/$id/patch.diff $P quick 2>&1)
    rc=$(echo "$out" | grep -o "exit=[0-9]*" | tail -1)
    sig=$(echo "$out" | grep "^VIOLATION" | head -1 | grep -o 'signature="[^"]*"' | cut -c1-90)
    infra=$(echo "$out" | grep -c "^INFRA")
    echo "$id $P $rc infra=$infra $sig"
  done
done
