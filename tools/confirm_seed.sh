#!/bin/bash
# Confirms a seeded change independently: builds, demo fails with / passes without, unedited suite passes with.
# usage: confirm_seed.sh <Cxx> <k>
export GOFLAGS=-mod=mod GOPROXY=off GOSUMDB=off GOTOOLCHAIN=local
P=$1; K=$2; BASE=${3:-230ed8a}
SRC=${SEEDROOT:-/tmp/seed}-$P-out/$K
W=/tmp/confirm-$P-$K
LOG=$SRC/confirm.log
rm -rf $W; git -C /repo worktree prune; git -C /repo worktree add -q --detach $W $BASE >/dev/null 2>&1 || { echo "worktree failed" > $LOG; exit 1; }
{
cd $W
echo "== base $(git rev-parse --short HEAD)"
DEMO=$(ls $SRC/*_test.go | head -1)
cp $DEMO $W/zz_demo_test.go
TESTS=$(grep -o "^func Test[A-Za-z0-9_]*" zz_demo_test.go | sed 's/func //' | paste -sd'|')
echo "== demo WITHOUT change ($TESTS)"
unshare -n sh -c "ip link set lo up; go test -mod=mod -vet=off -count=1 -timeout 10m -run '^($TESTS)\$' . 2>&1 | tail -3"
git apply $SRC/patch.diff && echo "== patch applied" || echo "== PATCH FAILED"
go build ./... && echo "== build ok"
echo "== demo WITH change"
unshare -n sh -c "ip link set lo up; go test -mod=mod -vet=off -count=1 -timeout 10m -run '^($TESTS)\$' . 2>&1 | tail -4"
rm zz_demo_test.go
echo "== suite WITH change"
unshare -n sh -c "ip link set lo up; go test -mod=mod -vet=off -count=1 -timeout 25m ./... 2>&1 | tail -6"
} > $LOG 2>&1
cd /; git -C /repo worktree remove --force $W
