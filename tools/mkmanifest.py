#!/usr/bin/env python3
"""Regenerates /verif/MANIFEST.json from the table below (kept by hand)."""
import json, sys

BASELINE = "cd /repo && go test -mod=mod -json -vet=off -count=1 -timeout 25m ./..."

CLUSTER_NOTE = ("Trusted base: the verification shims (cooperative scheduler, virtual clocks, simulated transport, in-memory storage), "
                "the Go toolchain. Bounded by the budgets, cluster sizes and deviation bound reported per suite in the evidence; "
                "canonical intra-node goroutine order; 64-bit state fingerprints.")

checks = {
 "C01": dict(level="model_checking", engine="cluster",
   text="Explicit-state search over environment-event sequences (deliveries, late replies, drops, duplicates, timeouts, crashes at quiescent points and at storage-call boundaries, restarts, client submissions) of 1-5 node clusters of the real library under a controlled scheduler; every applied (index, term, bytes) on every instance is compared with the first application of that index anywhere, and per-instance index order is checked, in every reached state. Suites named file* run the same search on the library's real file-backed log, state and snapshot storages (fresh directory per execution). Suites named slow* let Apply / Snapshot / Restore calls of the state machine take environment time (messages are delivered while the library has released its lock for the call). In addition every goroutine schedule within a bound of 2 (quick) / 3 (thorough) non-default decisions of the SCHED scenarios named in the evidence (concurrent submissions, concurrently handled requests and replies, crash and take-over; contested election) runs under the same monitors.",
   technique="explicit-state DFS over the real code (replay-based, state-hash pruning, deviation-bounded)", ref="4/C01"),
 "C02": dict(level="model_checking", engine="cluster",
   text="Same search with election-centred budgets on 2-5 voters (even sizes included), crashes around vote persistence and the seed S-split (two candidates of one term); in every state at most one node id may be in leader state per term and all AppendEntries/InstallSnapshot requests of a term must name one leader. Seeds: two candidates of one term; a voter that restarts between them. Suites named file* run the same search on the library's real file-backed log, state and snapshot storages (fresh directory per execution). In addition every goroutine schedule within a bound of 2 (quick) / 3 (thorough) non-default decisions of the SCHED scenarios named in the evidence (concurrent submissions, concurrently handled requests and replies, crash and take-over; contested election) runs under the same monitors.",
   technique="explicit-state DFS over the real code (replay-based, state-hash pruning, deviation-bounded, seeded)", ref="4/C02"),
 "C07": dict(level="model_checking", engine="cluster",
   text="Same search; the committed set (every entry covered by any node's commit index) is tracked and every node that starts leading a later term must hold all of it and must not lose it while it leads (entries committed and compacted within one step are learnt from a mirror of the log operations). Seeds: long-but-old versus short-but-new logs; re-elected leader cut off after replicating to one follower. In addition every goroutine schedule within a bound of 2 (quick) / 3 (thorough) non-default decisions of the SCHED scenarios named in the evidence (concurrent submissions, concurrently handled requests and replies, crash and take-over; contested election) runs under the same monitors.",
   technique="explicit-state DFS over the real code with a committed-set monitor", ref="4/C07"),
 "C03": dict(level="model_checking", engine="cluster",
   text="Same search with 2-3 overlapping client submissions, client give-ups, leader changes and crashes; every acknowledged future is compared with the authoritative applied order (bytes, index, term, state-machine result), every operation may appear at most once, and real-time order (acknowledged-before-invoked) must agree with applied order, in every reached state. Seeds: deposed leader with pending submissions; a leader stopped and restarted as the same instance while clients hold futures; a re-elected leader whose entry reaches one follower before another node wins the next term. Suites named slow* let Apply / Snapshot / Restore calls of the state machine take environment time (messages are delivered while the library has released its lock for the call). In addition every goroutine schedule within a bound of 2 (quick) / 3 (thorough) non-default decisions of the SCHED scenarios named in the evidence (concurrent submissions, concurrently handled requests and replies, crash and take-over; contested election) runs under the same monitors.",
   technique="explicit-state DFS over the real code with an incremental linearizability monitor", ref="4/C03"),
 "C04": dict(level="model_checking", engine="cluster",
   text="Same search with crashes at quiescent points and armed at storage-call boundaries (before/after log append, truncate, term/vote write), restarts of any subset, 1-5 voters and the seed S-stale; at every acknowledgement and first application the entry must be in the persistent logs of a majority of voters; later applications are covered by the C01 monitor across crash epochs, and in every later state a majority must still hold every acknowledged or applied operation (log or closed snapshot). Includes a follower that is inside Restore of a received snapshot while retransmitted chunks and new entries arrive. Suites named file* run the same search on the library's real file-backed log, state and snapshot storages (fresh directory per execution). In addition every goroutine schedule within a bound of 2 (quick) / 3 (thorough) non-default decisions of the SCHED scenarios named in the evidence (concurrent submissions, concurrently handled requests and replies, crash and take-over; contested election) runs under the same monitors.",
   technique="explicit-state DFS over the real code with storage-boundary crash injection", ref="4/C04"),
 "C05": dict(level="model_checking", engine="cluster",
   text="Untimed search (heartbeat requests and replies may be delayed without bound, partitions) with linearizable reads at any node believing to lead, including a deposed leader (seed S-deposed); a successful read must cover every write acknowledged before its invocation and non-overlapping reads must be monotone. A SCHED scenario enumerates every goroutine schedule (bound 2 / 4) inside a freshly elected leader that receives a read before its first commit.",
   technique="explicit-state DFS over the real code, per-node virtual clocks, stale-read monitor with root-cause classifier", ref="4/C05"),
 "C06": dict(level="exploration", engine="handler",
   text="Small-scope exhaustive input enumeration: every AppendEntries request of the bounded domain (term lower/equal/higher, every prev index, every contiguous entries window, every leaderCommit) from every Log-Matching-compatible sender log against every follower state (log up to 4/5 entries over 3 terms, compacted prefix, commit index, term), plus ordered request pairs; each case calls the exported handler on a fresh real node booted from preloaded storage and checks the per-call rules of the property; the cluster explorer additionally checks pairwise log matching of persistent logs in every reached state, incl. a suite on the real file-backed log with snapshots, compaction, conflicts and restarts (a log on disk that no longer matches what was acknowledged shows as a failed restart).",
   technique="exhaustive small-scope input enumeration against the real handler + explicit-state cluster search",
   note="Trusted base: shims, in-memory storage with the file log's semantics, the oracle's reading of the property (requests contradicting the follower's committed prefix are outside the domain). Bounded by log length and 3 terms.", ref="4/C06"),
 "C08": dict(level="model_checking", engine="cluster",
   text="Explicit-state search over one real node booted from preloaded storage (15 start states over term, vote, log) with two puppet peers: every sequence of up to 4/5 steps over injected RequestVote/AppendEntries/InstallSnapshot requests, own timeouts, every answer to its own requests, crashes at quiescent points and at storage-call boundaries, restart; plus the cluster suites. Monitors: term never decreases (replies, status, across restarts), at most one grantee per (node, term), grant implies up-to-date candidate log and a persisted vote, prevote leaves stored (term, vote) unchanged, a granted and stored vote is never replaced by an empty vote for the same term. Suites named file* run the same search on the library's real file-backed log, state and snapshot storages (fresh directory per execution). In addition every goroutine schedule within a bound of 2 (quick) / 3 (thorough) non-default decisions of the SCHED scenarios named in the evidence (concurrent submissions, concurrently handled requests and replies, crash and take-over; contested election) runs under the same monitors.",
   technique="explicit-state DFS over a single real node with puppet peers (HANDLER) + cluster DFS", ref="4/C08"),
 "C19": dict(level="exploration", engine="codec",
   text="Cartesian enumeration of request/response field domains (0, 1, 2^32, max; empty/ASCII/non-ASCII ids; nil/empty/1 B/1 KiB byte slices; 0-2 entries of all three types and suffixes of 255 to 65537 entries; snapshot payloads 0 B to 8 MiB) through two real gRPC transports on loopback, the library's converters in-process, and read-back through the real file storages; received must equal sent field-wise (nil == empty bytes).",
   technique="exhaustive enumeration of a finite input domain through the real transport and storages",
   note="Trusted base: loopback TCP, gRPC, the comparison code. LogEntry.Offset is storage-only and not compared on the RPC path. 2-entry lists over real RPCs use a pairwise header design (full product in-process).", ref="4/C19"),
 "C10": dict(level="exploration", engine="sched",
   text="Schedule enumeration on the real code: scenarios (local snapshot racing with application on a single node, sequential/concurrent submissions, 0 B to >32 KiB payloads, crash+restart from the snapshot; snapshot installation on a lagging follower racing with application, restore and compact branches) are executed under every schedule with up to 1-2 (quick) / 2-3 (thorough) non-default decisions at the library's synchronisation points; every snapshot that becomes visible must hold exactly the applied prefix up to its label and every state machine instance must always hold a duplicate-free, gap-free prefix of the applied order. The cluster part (snapshots with membership changes, stale suffixes, slow Snapshot / Restore / Apply calls, the real file-backed storages) checks the same in every reached state.",
   technique="stateless schedule enumeration with iterative context bounding on the real code (controlled scheduler)",
   note="Trusted base: scheduler shim, in-memory storage, recfsm. Switch points are the library's synchronisation operations (sound given C20). Bounded number of non-default decisions; fixed scenarios.", ref="4/C10"),
 "C20": dict(level="exploration", engine="sched",
   text="The same schedule enumeration built with -race: hand-offs between goroutines go through //go:norace spin gates and shim functions are norace, so the detector's happens-before analysis sees only the library's own synchronisation (real mutexes inside the shim mutex, real goroutine creation, message transfer edges); eight scenarios (election + submitters + status pollers, snapshot while applying, membership changes during submissions, Stop/Restart during activity, snapshot installation on a lagging follower, lifecycle calls racing on a fresh node, a membership change applied while the same node takes a snapshot, compaction of the real file-backed log while requests carrying the surviving entries are with the transport) under every schedule with up to 1 (quick) / 2 (thorough) non-default decisions; any report whose two accesses are both in library code is a violation.",
   technique="schedule enumeration under the Go race detector with detector-invisible scheduler hand-offs",
   note="Trusted base: Go race detector (bounded access history per word), shims. Reports with a harness-side access are ignored (the harness reads library memory between hand-offs by design).", ref="4/C20"),
 "C09": dict(level="model_checking", engine="cluster",
   text="Cluster search with a membership alphabet (AddServer non-voter/voter, promotion, RemoveServer of any member including the leader, submitted to any node believing to lead) over 1-3 bootstrapped voters plus spare nodes started empty, with timeouts, partitions, late replies, crashes; C01/C02/C07 monitors plus: every leader must have been elected by a majority of the voters of its own configuration, every commit-index advance of a leader must be backed by copies on a majority of voters of the configuration in force, membership futures must report a committed configuration containing the requested change. A classifier marks violations that occur while a leader acts on a configuration superseded by a committed one.",
   technique="explicit-state DFS over the real code with a membership alphabet and quorum monitors", ref="4/C09"),
 "C12": dict(level="fault_enumeration", engine="crash",
   text="Every sequence of up to 3 (quick) / 4 (thorough) log operations (append 1/2/3 entries of all types and data shapes, truncate/compact/discard at every valid index, close+reopen) on the real file-backed log over an intercepting os layer; for the last operation of every program a crash before every mutating call and after every byte prefix of every write (all prefixes up to 16 bytes, a fixed set beyond), then NewLog+Open+Replay on the crashed directory, comparison with the in-memory reference model (before / after / before+prefix of the in-flight append), a fixed continuation and a second reopen; one level of nesting.",
   technique="exhaustive crash-point and torn-write enumeration over all bounded operation sequences against a reference model",
   note="Fault model: process crash (completed calls durable, in-flight write leaves any byte prefix, no reordering); power loss is not modelled. Trusted base: vos interception layer, reference model (sim.MemLog).", ref="4/C12"),
 "C13": dict(level="fault_enumeration", engine="crash",
   text="All sequences of up to 4 SetState calls over 12 values, and snapshot-storage programs (NewSnapshotFile + 0-3 writes + Close/Discard, SnapshotFile+read) of up to 4 operations with 0..40 completed snapshots already present, payloads 0 B / 10 B / 40 KiB; every crash point as in C12; recovery = first-attempt constructors, then State() / SnapshotFile(): last returned or in-flight value; newest closed snapshot complete with matching metadata, never a partial one.",
   technique="exhaustive crash-point enumeration over bounded operation sequences on the real storages",
   note="Process-crash fault model; trusted base: vos interception layer.", ref="4/C13"),
 "C18": dict(level="exploration", engine="api",
   text="Every single call, ordered pair (sequential and concurrent) and lifecycle-led triple (thorough: any third call, 4-call lifecycle sequences) from a 24-call menu of the public API (Bootstrap variants, Start/Restart/Stop, SubmitOperation of every type incl. an invalid one, nil/non-nil data, zero timeout, AddServer/RemoveServer incl. invalid ids and self, Status, Configuration, State/OperationType rendering) on a node in each of 9 base states (never started, follower, leader before/after first commit, pre-candidate, candidate, stopped, stopped-then-restarted, removed), followed by default cluster activity and an election timeout on every node; oracle: no panic in any goroutine, no process exit through the fatal path, every call returns, membership futures of changes that committed under the submitting leader resolved with the right configuration and were not refused.",
   technique="exhaustive enumeration of bounded API call sequences over base states on the real code under the controlled scheduler",
   note="Canonical goroutine interleaving inside a step (schedule enumeration of API calls is in C20's scenarios); futures are polled, not awaited through the real select.", ref="4/C18"),
 "C16": dict(level="model_checking", engine="cluster",
   text="Timed cluster search (global clock in heartbeat intervals, election timeout 6, lease 2; prompt delivery unless a link is cut; staggered election timeouts, all three rotations): from a stable leader and from seeds in which the minority node has been isolated for 10 intervals and is campaigning, lost a same-term election as a candidate before being cut off, was removed from the cluster without learning of it, or campaigns while the leader catches its majority partner up with a snapshot of several requests, every placement of symmetric / inbound-only / outbound-only isolation, heal, crash and restart of the minority node and of out-of-order deliveries of individual messages over a 16-36 interval horizon within the deviation bound; the leader must stay leader and the majority's term must not increase in any reached state.",
   technique="explicit-state DFS over the real code with a global virtual clock (timed mode)",
   note="Premise enforced by the alphabet (faults only on the minority node, majority links prompt). Trusted base as for the cluster engine plus the tick abstraction of time.", ref="4/C16"),
 "C17": dict(level="model_checking", engine="cluster",
   text="Timed cluster search with synchronised clocks and per-message delay of at most one interval (lease 2 + delay 1 < election timeout 6): lease reads at any node that believes it leads, writes, isolation/heal of any node, from a stable 3-voter leader, from the seed where the old leader has been cut off while a new leader exists, from a 5-voter seed where the old leader keeps only one follower, from a seed where it keeps only two non-voters and from a seed with a lagging voter that rejects the next heartbeat while another voter campaigns; plus a SCHED scenario over the goroutine schedules inside a freshly elected leader; a successful lease read must cover every write acknowledged before its invocation.",
   technique="explicit-state DFS over the real code with a global virtual clock (timed mode), stale-read monitor",
   note="Synchronised clocks on an integer tick grid; at most one outstanding read per node. Trusted base as for the cluster engine.", ref="4/C17"),
 "C11": dict(level="exploration", engine="handler",
   text="Small-scope exhaustive input enumeration: every sequence of up to 3/4 InstallSnapshot requests (two snapshots S1<S2 of one sender history cut into 1-3 chunks, every chunk in any order, duplicates, wrong offsets, lower/equal/higher term) against 6 follower log shapes (shorter, matching, conflicting at either boundary, longer and stale) x commit indices, on a real node booted from preloaded storage; per request: commit/applied/term monotone, no snapshot older than applied, committed entries beyond the label kept, applied entries equal the sender history, visible snapshot bytes equal the sender's snapshot of that label, boundary terms correct; cluster suites with a slow Restore (a follower inside Restore while retransmitted chunks and new entries arrive: nothing acknowledged may be lost) and on the real file-backed storages; then vote probes at the log end and a catch-up by the legitimate leader that must bring the node to exactly its history. Plus cluster suites with snapshots on.",
   technique="exhaustive small-scope request-sequence enumeration against the real handler + explicit-state cluster search",
   note="The differential twin of the design is replaced by the catch-up oracle and vote probes. One sender history of 6 entries over 3 terms.", ref="4/C11"),
 "C14": dict(level="fault_enumeration", engine="crash-cluster",
   text="Eleven scripted cluster schedules (election and replication, conflict and truncate, vote then candidate dies, local snapshot and compaction, snapshot installation on a lagging follower with small and 33 KiB payloads, installation over a stale suffix, compaction followed by a conflict, snapshot visible before a later-term entry, same-term step-down after a vote, membership changes) run on the library's real file-backed storages through the intercepting os layer; every mutating file-system call of every node is a crash point (plus torn prefixes of writes): the node is killed there, restarted over the same directory (second level: killed again at every mutating call of that recovery and restarted once more), then 150 fault-free intervals follow. Oracle: constructors and Start succeed, the recovered log is well formed and holds what the node held, no fatal exit or panic, safety monitors hold, one leader, progress, every member catches up.",
   technique="exhaustive crash-point enumeration over cluster schedules on the real storages, with restart and bounded-liveness continuation",
   note="Process-crash fault model, one crash per run, fixed schedules under canonical scheduling. Trusted base: vos layer, storage mirrors used by the monitors.", ref="4/C14"),
 "C15": dict(level="model_checking", engine="cluster",
   text="Bounded liveness made safety: from every leaf state (quick) / every distinct state (thorough) of bounded explorations with crashes at storage-call boundaries, partitions, membership changes (3 voters + spare; 1 voter growing a cluster), snapshots below and above the chunk size, and seeds (term gap, re-added member with a snapshot, one follower snapshotting ahead of the leader's probe), a fault-free continuation of 150 heartbeat intervals (25 election timeouts; prompt delivery, staggered election timeouts) must end with exactly one leader, an acknowledged fresh operation and every member of the committed configuration holding the leader's applied sequence.",
   technique="explicit-state DFS over the real code with a fault-free timed continuation evaluated per state",
   note="Premise checked per state (a majority of voters running). Horizon deliberately generous; one timeout rotation per run.", ref="4/C15"),
}

not_applicable = {}
ALL = ["C%02d" % i for i in range(1, 21)]
for p in ALL:
    if p not in checks:
        not_applicable[p] = "check not built yet in this round (planned engine in DESIGN.md section 4); not claimed until its check exists"

m = {
 "version": 1,
 "setup_cmd": "bin/build --warm >/dev/null && bin/build --race >/dev/null",
 "hooks": {
   "guard": "verif",
   "enable": "go build -tags verif -overlay <generated by mc/cmd/instrument from /repo's working tree> (bin/build); no hook lives in /repo",
   "baseline_off_cmd": BASELINE,
   "source_commits": [],
   "add_only": True,
 },
 "engines": [
   {"name": "cluster", "path": "mc/explore + mc/sim + mc/monitor", "serves_properties": sorted(k for k, v in checks.items() if v["engine"] == "cluster"),
    "kind_free_text": "stateful depth-first search over environment events of a simulated cluster running the real library under a cooperative scheduler (overlay-instrumented build)"},
   {"name": "handler", "path": "mc/cmd/check/c06.go + mc/sim/single.go", "serves_properties": ["C06", "C11"], "kind_free_text": "exhaustive small-scope input enumeration against exported handlers of a real node booted from preloaded storage"},
   {"name": "sched", "path": "mc/sched", "serves_properties": ["C01", "C02", "C03", "C04", "C05", "C07", "C08", "C09", "C10", "C17", "C20"], "kind_free_text": "stateless enumeration of goroutine schedules of fixed scenarios up to a bound on non-default decisions (controlled cooperative scheduler; optionally under -race)"},
   {"name": "crash", "path": "mc/crashfs + shim/vos", "serves_properties": ["C12", "C13"], "kind_free_text": "crash-point / torn-write enumeration of operation sequences on the real file-backed storages through an intercepting os layer"},
   {"name": "crash-cluster", "path": "mc/cmd/check/c14.go + mc/sim/filestore.go", "serves_properties": ["C14"], "kind_free_text": "crash-point enumeration over scripted cluster schedules on the real file-backed storages"},
   {"name": "api", "path": "mc/cmd/check/c18.go + mc/sim/api.go", "serves_properties": ["C18"], "kind_free_text": "exhaustive bounded API-call sequences from constructed base states"},
   {"name": "codec", "path": "mc/codec", "serves_properties": ["C19"], "kind_free_text": "exhaustive enumeration of message/record domains through the real gRPC transport and file storages"},
 ],
 "checks": [],
 "not_applicable": [{"property_id": k, "reason": v} for k, v in sorted(not_applicable.items())],
 "notes": "All instrumentation is applied at build time through go build -overlay; /repo carries only fix: commits. See DESIGN.md.",
}
for pid in sorted(checks):
    c = checks[pid]
    m["checks"].append({
      "property_id": pid,
      "quick_cmd": f"bin/check {pid} --tier quick",
      "thorough_cmd": f"bin/check {pid} --tier thorough",
      "evidence_file": f"/verif/evidence/{pid}.json",
      "replay_cmd_template": "bin/check replay {path}",
      "engine": c["engine"],
      "level_claimed": {"category": c["level"], "text": c["text"], "design_ref": c["ref"]},
      "level_note": c.get("note", CLUSTER_NOTE),
      "technique": c["technique"],
    })
json.dump(m, open("/verif/MANIFEST.json", "w"), indent=1)
print("wrote MANIFEST.json with", len(m["checks"]), "checks;", len(m["not_applicable"]), "not applicable")
