#!/usr/bin/env python3
"""Prints the prompt for a seeding sub-agent for one property (only the property text + its own worktree)."""
import json, sys
pid = sys.argv[1]
prop = None
for l in open('/verif/properties.jsonl'):
    p = json.loads(l)
    if p['id'] == pid:
        prop = p
wt = f"/tmp/seed-{pid}"
out = f"/tmp/seed-{pid}-out"
text = json.dumps({k: prop[k] for k in ('id', 'title', 'statement', 'quantifier', 'why_tests_cant', 'anchors')}, indent=1)
print(f"""You are a software engineer asked to play the role of a careless (but plausible) contributor to the Go library jmsadair/raft. A private git worktree of the repository is at {wt} (branch seed-{pid}); work ONLY there and in {out} (create it). Do not read or write anything under /repo, /verif or other /tmp/seed-* directories; there is no network.

Here is a semantic property that users of the library rely on:

{text}

YOUR TASK: produce TWO different source changes to the library (different mechanisms / different code sites if you can) each of which BREAKS this property while
 (1) the library still compiles (`go build ./...`), and
 (2) the repository's existing test suite, unedited, still passes with the change, and
 (3) the breakage needs something SPECIFIC to manifest — a particular interleaving or message order, a crash or fault at a particular point, a multi-step sequence of operations, an unusual input, or two cooperating sites that each look fine alone — not something ordinary use would expose at once. Prefer realistic bugs: a condition slightly wrong (>= for >), a check dropped on one path, a write moved after a reply, state updated in the wrong order, an off-by-one in an index, a stale value reused, a lock released a little early, a cursor advanced before it is reserved. Keep each change small (1-15 lines), in non-test .go files only. Do not add sleeps, random behaviour, environment-variable switches, or anything that looks like a planted trap.

For EACH change provide a DEMONSTRATION: a Go test file (package raft, placed in the worktree root as zz_demo_test.go while you run it; it may use the unexported helpers in testing.go and internal fields) or a small program that FAILS with the change applied and PASSES without it, deterministically (run it at least 3 times each way). The demonstration should drive the real code into the specific situation (hand-built requests to the exported RPC handlers, a mock transport that withholds/reorders messages, preloaded storage directories, crafted files ...). It is fine if the demonstration is white-box.

ENVIRONMENT: every shell command needs `export GOFLAGS=-mod=mod GOPROXY=off GOSUMDB=off GOTOOLCHAIN=local`. Build: `cd {wt} && go build ./...`. The existing suite takes 5-8 minutes and binds fixed loopback ports (127.0.0.x:8080), and other people run it at the same time on this machine, so ALWAYS run it inside a private network namespace: `cd {wt} && unshare -n sh -c 'ip link set lo up; go test -mod=mod -vet=off -count=1 -timeout 25m ./... 2>&1 | tail -15'` and check that the output ends with `ok` lines for every package and no FAIL. Run your demonstration the same way (`-run <Name> .`). Remove zz_demo_test.go from the worktree before running the existing suite (it must pass UNEDITED, with only your source change). The machine is heavily loaded: timing-sensitive cluster tests in the existing suite can be flaky; if one fails, re-run that test alone twice (with and without your change) to decide whether your change is responsible, and say so.

DELIVERABLES in {out}/1/ and {out}/2/: `patch.diff` (output of `git diff` in the worktree for that change alone, applicable with `git apply` to the worktree's base commit), the demonstration file(s), and `notes.md` saying: what the change does, why it breaks the property, what exactly is needed for it to manifest, the commands you ran and their observed results (demo fails with / passes without; suite passes with). After finishing change 1, `git checkout -- . && git clean -fd` in the worktree before starting change 2. Leave the worktree clean at the end. If you cannot find a second change that passes the existing suite, deliver one and say what you tried. Final answer: a short summary of both changes (file:line, one sentence each) and whether every condition above was verified.""")
