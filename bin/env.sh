# sourced by every script
export GOFLAGS=-mod=mod GOPROXY=off GOSUMDB=off GOTOOLCHAIN=local
export VERIF_ROOT=${VERIF_ROOT:-/verif}
export REPO=${REPO:-/repo}
scratch_base() {
  if [ -d /dev/shm ] && [ -w /dev/shm ]; then echo /dev/shm; else echo "${TMPDIR:-/tmp}"; fi
}
