#!/bin/bash
# usage: repro/run.sh <file_test.go> [-run regexp]
# Runs one reproduction file against the UN-instrumented library in /repo
# (nothing in /repo is modified: the file is added by a build overlay).
set -e
export GOFLAGS=-mod=mod GOPROXY=off GOSUMDB=off GOTOOLCHAIN=local
here=$(cd "$(dirname "$0")" && pwd)
f=$1; shift
case "$f" in /*) ;; *) f="$here/$(basename "$f")";; esac
base=/dev/shm; [ -d "$base" ] && [ -w "$base" ] || base=${TMPDIR:-/tmp}
scratch=$(mktemp -d "$base/verif-repro.XXXXXX")
trap 'rm -rf "$scratch"' EXIT
printf '{"Replace":{"%s/zz_repro_test.go":"%s"}}\n' "${REPO:-/repo}" "$f" > "$scratch/overlay.json"
mkdir -p "$scratch/tmp"
cd "${REPO:-/repo}"
if [ $# -eq 0 ]; then set -- -run 'TestRepro'; fi
TMPDIR="$scratch/tmp" go test -mod=mod -vet=off -count=1 -overlay "$scratch/overlay.json" "$@" .
