package raft

// Stand-alone reproductions of the C12 findings of /verif's CRASH engine, on
// the un-instrumented library. A process crash in the middle of AppendEntries
// is emulated exactly: the record is appended by the library itself, then the
// file is cut back to the byte prefix the crashed write would have left.
//
//   cd /repo && go test -mod=mod -vet=off -overlay <json mapping
//   /repo/zz_repro_test.go to this file> -run 'TestReproC12' .
//
// Each test FAILS while the defect is present.

import (
	"os"
	"path/filepath"
	"testing"
)

// reproLogWithTornTail leaves dir with a log that holds entry 1 completely and
// only the first `keep` bytes of the record of entry 2 (4-byte length prefix
// followed by the protobuf body).
func reproLogWithTornTail(t *testing.T, dir string, keep int64) {
	t.Helper()
	l, err := NewLog(dir)
	if err != nil {
		t.Fatal(err)
	}
	if err := l.Open(); err != nil {
		t.Fatal(err)
	}
	if err := l.Replay(); err != nil {
		t.Fatal(err)
	}
	if err := l.AppendEntry(NewLogEntry(1, 1, []byte("first"), OperationEntry)); err != nil {
		t.Fatal(err)
	}
	file := filepath.Join(dir, "log", "log.bin")
	fi, err := os.Stat(file)
	if err != nil {
		t.Fatal(err)
	}
	durable := fi.Size() // everything up to here belongs to operations that returned
	if err := l.AppendEntry(NewLogEntry(2, 1, []byte("second"), OperationEntry)); err != nil {
		t.Fatal(err)
	}
	if err := l.Close(); err != nil {
		t.Fatal(err)
	}
	// the crash: only `keep` bytes of the second record reached the file
	if err := os.Truncate(file, durable+keep); err != nil {
		t.Fatal(err)
	}
}

func reproReopen(t *testing.T, dir string) Log {
	t.Helper()
	l, err := NewLog(dir)
	if err != nil {
		t.Fatalf("NewLog after the crash: %v", err)
	}
	if err := l.Open(); err != nil {
		t.Fatalf("Open after the crash: %v", err)
	}
	if err := l.Replay(); err != nil {
		t.Fatalf("Replay after the crash (the log cannot be reopened, the node cannot restart): %v", err)
	}
	return l
}

// signature replay-error:crash-inside-length-prefix
func TestReproC12CrashInsideLengthPrefix(t *testing.T) {
	for keep := int64(1); keep <= 3; keep++ {
		dir := t.TempDir()
		reproLogWithTornTail(t, dir, keep)
		l := reproReopen(t, dir)
		if l.LastIndex() != 1 {
			t.Fatalf("recovered last index %d, want 1", l.LastIndex())
		}
		l.Close()
	}
}

// the same signature on the very first open: the crash hits the placeholder
// record that Replay writes into an empty file
func TestReproC12CrashInsideLengthPrefixAtCreation(t *testing.T) {
	dir := t.TempDir()
	if err := os.MkdirAll(filepath.Join(dir, "log"), 0o755); err != nil {
		t.Fatal(err)
	}
	// 2 of the 4 bytes of the placeholder's length prefix
	if err := os.WriteFile(filepath.Join(dir, "log", "log.bin"), []byte{0, 0}, 0o666); err != nil {
		t.Fatal(err)
	}
	reproReopen(t, dir).Close()
}

// signature replay-error:crash-inside-record-body
func TestReproC12CrashInsideRecordBody(t *testing.T) {
	for _, keep := range []int64{4 + 1, 4 + 7} {
		dir := t.TempDir()
		reproLogWithTornTail(t, dir, keep)
		l := reproReopen(t, dir)
		if l.LastIndex() != 1 {
			t.Fatalf("recovered last index %d, want 1", l.LastIndex())
		}
		l.Close()
	}
}

// signature orphan-header-accepted:next-append-corrupts
func TestReproC12OrphanHeaderThenAppend(t *testing.T) {
	dir := t.TempDir()
	reproLogWithTornTail(t, dir, 4) // length prefix complete, body absent
	l := reproReopen(t, dir)        // accepted as end-of-log, file not repaired
	if l.LastIndex() != 1 {
		t.Fatalf("recovered last index %d, want 1", l.LastIndex())
	}
	// the recovered log keeps working ...
	if err := l.AppendEntry(NewLogEntry(2, 2, []byte("after recovery"), OperationEntry)); err != nil {
		t.Fatal(err)
	}
	if err := l.Close(); err != nil {
		t.Fatal(err)
	}
	// ... but the entry that was acknowledged after recovery is unreadable
	l = reproReopen(t, dir)
	defer l.Close()
	if l.LastIndex() != 2 {
		t.Fatalf("after reopen last index is %d, want 2", l.LastIndex())
	}
	e, err := l.GetEntry(2)
	if err != nil || e.Term != 2 || string(e.Data) != "after recovery" {
		t.Fatalf("entry 2 after reopen: %+v, %v", e, err)
	}
}
