package raft

// Stand-alone reproduction of the C19 finding
//
//	signature  rpc-refused:append-entries-request-over-4MiB
//
// on the un-instrumented library. Run with
//
//	cd /repo && go test -mod=mod -vet=off -count=1 \
//	   -overlay /verif/repro/c19_append_entries_over_4mib.overlay.json \
//	   -run TestReproC19AppendEntriesOver4MiB .
//
// Same transport-level cause as the InstallSnapshot finding (the gRPC server
// of transport.go:175 keeps the default 4 MiB receive limit); the sender-side
// contribution is different: sendAppendEntries (raft.go:1007-1023) puts every
// entry from nextIndex to the end of the log into one request, without a
// bound on count or bytes, so a follower that is more than 4 MiB of log data
// behind can never be caught up by AppendEntries.

import (
	"bytes"
	"net"
	"testing"
)

func reproC19AEFreeAddr(t *testing.T) string {
	l, err := net.Listen("tcp", "127.0.0.1:0")
	if err != nil {
		t.Fatal(err)
	}
	defer l.Close()
	return l.Addr().String()
}

func TestReproC19AppendEntriesOver4MiB(t *testing.T) {
	var got AppendEntriesRequest
	recvAddr := reproC19AEFreeAddr(t)
	recv, err := NewTransport(recvAddr)
	if err != nil {
		t.Fatal(err)
	}
	recv.RegisterAppendEntriesHandler(func(req *AppendEntriesRequest, resp *AppendEntriesResponse) error {
		got = *req
		resp.Term, resp.Success = req.Term, true
		return nil
	})
	recv.RegisterRequestVoteHandler(func(*RequestVoteRequest, *RequestVoteResponse) error { return nil })
	recv.RegsiterInstallSnapshotHandler(func(*InstallSnapshotRequest, *InstallSnapshotResponse) error { return nil })
	if err := recv.Run(); err != nil {
		t.Fatal(err)
	}
	defer recv.Shutdown()
	send, err := NewTransport(reproC19AEFreeAddr(t))
	if err != nil {
		t.Fatal(err)
	}
	if err := send.Run(); err != nil {
		t.Fatal(err)
	}
	defer send.Shutdown()

	mk := func(entries, size int) AppendEntriesRequest {
		req := AppendEntriesRequest{LeaderID: "leader", Term: 1}
		for i := 0; i < entries; i++ {
			data := bytes.Repeat([]byte{byte(i + 1)}, size)
			req.Entries = append(req.Entries, NewLogEntry(uint64(i+1), 1, data, OperationEntry))
		}
		return req
	}
	cases := []struct {
		name          string
		entries, size int
	}{
		{"3x1MiB-control", 3, 1024 * 1024},
		{"1x4MiB+1", 1, 4*1024*1024 + 1},
		{"5x1MiB", 5, 1024 * 1024},
	}
	for _, c := range cases {
		c := c
		t.Run(c.name, func(t *testing.T) {
			got = AppendEntriesRequest{}
			req := mk(c.entries, c.size)
			resp, err := send.SendAppendEntries(recvAddr, req)
			if err != nil {
				t.Fatalf("a valid AppendEntriesRequest with %d entries of %d bytes did not arrive: %v", c.entries, c.size, err)
			}
			if !resp.Success || len(got.Entries) != len(req.Entries) {
				t.Fatalf("sent %d entries, %d arrived, success=%t", len(req.Entries), len(got.Entries), resp.Success)
			}
			for i := range req.Entries {
				if !bytes.Equal(req.Entries[i].Data, got.Entries[i].Data) || req.Entries[i].Index != got.Entries[i].Index {
					t.Fatalf("entry %d arrived different", i)
				}
			}
		})
	}
}
