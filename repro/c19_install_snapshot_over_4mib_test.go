package raft

// Stand-alone reproduction of the C19 finding
//
//	signature  rpc-refused:install-snapshot-payload-over-4MiB
//
// on the un-instrumented library. Run with
//
//	cd /repo && go test -mod=mod -vet=off -count=1 \
//	   -overlay /verif/repro/c19_install_snapshot_over_4mib.overlay.json \
//	   -run TestReproC19InstallSnapshotOver4MiB .
//
// The bundled transport creates its gRPC server without a message-size option
// (transport.go:175), so the server refuses every request whose serialized
// form exceeds gRPC's default receive limit of 4 MiB; the leader's snapshot
// sender (raft.go:1618-1628) reads the WHOLE rest of the snapshot file into
// one request (io.Copy into a bytes.Buffer; snapshotChunkSize is only used to
// compute Done), so a snapshot file above 4 MiB can never be installed on a
// follower.

import (
	"bytes"
	"fmt"
	"io"
	"net"
	"testing"
)

func reproC19ISFreeAddr(t *testing.T) string {
	l, err := net.Listen("tcp", "127.0.0.1:0")
	if err != nil {
		t.Fatal(err)
	}
	defer l.Close()
	return l.Addr().String()
}

// reproC19ISPair starts a sending and a receiving transport; the receiver
// records the request and answers like raft.go:1398-1417.
func reproC19ISPair(t *testing.T, received *InstallSnapshotRequest) (Transport, string) {
	recvAddr := reproC19ISFreeAddr(t)
	recv, err := NewTransport(recvAddr)
	if err != nil {
		t.Fatal(err)
	}
	recv.RegisterAppendEntriesHandler(func(*AppendEntriesRequest, *AppendEntriesResponse) error { return nil })
	recv.RegisterRequestVoteHandler(func(*RequestVoteRequest, *RequestVoteResponse) error { return nil })
	recv.RegsiterInstallSnapshotHandler(func(req *InstallSnapshotRequest, resp *InstallSnapshotResponse) error {
		*received = *req
		resp.Term = req.Term
		resp.BytesWritten = req.Offset + int64(len(req.Bytes))
		return nil
	})
	if err := recv.Run(); err != nil {
		t.Fatal(err)
	}
	t.Cleanup(func() { recv.Shutdown() })
	send, err := NewTransport(reproC19ISFreeAddr(t))
	if err != nil {
		t.Fatal(err)
	}
	if err := send.Run(); err != nil {
		t.Fatal(err)
	}
	t.Cleanup(func() { send.Shutdown() })
	return send, recvAddr
}

func reproC19ISPayload(n int) []byte {
	b := make([]byte, n)
	for i := range b {
		b[i] = ^(byte(i) ^ byte(i>>8) ^ byte(i>>16))
	}
	return b
}

// A valid InstallSnapshotRequest must arrive equal to what was sent, whatever
// the size of its payload.
func TestReproC19InstallSnapshotOver4MiB(t *testing.T) {
	var got InstallSnapshotRequest
	send, addr := reproC19ISPair(t, &got)

	// 4194299 is the largest payload that fits (serialized request = 4194304
	// bytes), 4194300 the smallest that does not; 8 MiB is a plain large one.
	for _, n := range []int{4*1024*1024 - 64*1024, 4194299, 4194300, 4*1024*1024 + 1, 8 * 1024 * 1024} {
		n := n
		t.Run(fmt.Sprintf("payload-%d", n), func(t *testing.T) {
			got = InstallSnapshotRequest{}
			req := InstallSnapshotRequest{Bytes: reproC19ISPayload(n)}
			resp, err := send.SendInstallSnapshot(addr, req)
			if err != nil {
				t.Fatalf("a valid InstallSnapshotRequest with a %d-byte payload did not arrive: %v", n, err)
			}
			if !bytes.Equal(got.Bytes, req.Bytes) {
				t.Fatalf("payload of %d bytes arrived as %d bytes", n, len(got.Bytes))
			}
			if resp.BytesWritten != int64(n) {
				t.Fatalf("response BytesWritten = %d, handler answered %d", resp.BytesWritten, n)
			}
		})
	}
}

// The library's own sender, statement by statement (raft.go:1602-1639),
// against the real snapshot storage and the real transport: an 8 MiB snapshot
// file becomes ONE request of 8 MiB, which the receiving transport refuses.
func TestReproC19InstallSnapshotOver4MiBSenderPath(t *testing.T) {
	var got InstallSnapshotRequest
	send, addr := reproC19ISPair(t, &got)

	const size = 8 * 1024 * 1024
	payload := reproC19ISPayload(size)
	storage, err := NewSnapshotStorage(t.TempDir())
	if err != nil {
		t.Fatal(err)
	}
	file, err := storage.NewSnapshotFile(7, 3, []byte("configuration"))
	if err != nil {
		t.Fatal(err)
	}
	if _, err := file.Write(payload); err != nil {
		t.Fatal(err)
	}
	if err := file.Close(); err != nil {
		t.Fatal(err)
	}

	snapshot, err := storage.SnapshotFile() // raft.go:1603
	if err != nil || snapshot == nil {
		t.Fatalf("no snapshot file: %v", err)
	}
	defer snapshot.Close()
	metadata := snapshot.Metadata()
	var arrived []byte
	for round := 0; round < 4; round++ {
		offset, err := snapshot.Seek(0, io.SeekCurrent) // raft.go:1611
		if err != nil {
			t.Fatal(err)
		}
		request := InstallSnapshotRequest{
			LeaderID: "leader", Term: 1,
			LastIncludedIndex: metadata.LastIncludedIndex, LastIncludedTerm: metadata.LastIncludedTerm,
			Configuration: metadata.Configuration, Offset: offset,
		}
		var buf bytes.Buffer
		n, err := io.Copy(&buf, snapshot) // raft.go:1627: "a chunk" = the rest of the file
		if err != nil {
			t.Fatal(err)
		}
		request.Bytes = buf.Bytes()
		request.Done = n < snapshotChunkSize // raft.go:1635
		t.Logf("request %d: offset=%d bytes=%d done=%t", round, offset, n, request.Done)
		got = InstallSnapshotRequest{}
		if _, err := send.SendInstallSnapshot(addr, request); err != nil {
			t.Fatalf("the sender's request for a %d-byte snapshot file (offset %d, %d bytes in one request, snapshotChunkSize=%d) was refused: %v",
				size, offset, n, snapshotChunkSize, err)
		}
		if got.Offset == int64(len(arrived)) {
			arrived = append(arrived, got.Bytes...)
		}
		if request.Done {
			break
		}
	}
	if !bytes.Equal(arrived, payload) {
		t.Fatalf("snapshot of %d bytes arrived as %d bytes", size, len(arrived))
	}
}
