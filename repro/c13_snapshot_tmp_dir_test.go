package raft

// Stand-alone reproduction of the C13 finding of /verif's CRASH engine, on the
// un-instrumented library.
//
//   cd /repo && go test -mod=mod -vet=off -overlay <json mapping
//   /repo/zz_repro_test.go to this file> -run 'TestReproC13' .
//
// The test FAILS while the defect is present.

import "testing"

// signature constructor-error:non-empty-tmp-snapshot-dir
//
// A process that dies while a snapshot is being written (any time between
// NewSnapshotFile and the rename in Close) leaves snapshots/tmp-snapshot*/
// with snapshot.bin and metadata.json in it. The next process must be able to
// construct its snapshot storage on the first attempt.
func TestReproC13InterruptedSnapshotBlocksConstructor(t *testing.T) {
	dir := t.TempDir()
	st, err := NewSnapshotStorage(dir)
	if err != nil {
		t.Fatal(err)
	}
	f, err := st.NewSnapshotFile(7, 3, []byte("conf"))
	if err != nil {
		t.Fatal(err)
	}
	if _, err := f.Write([]byte("half a snapshot")); err != nil {
		t.Fatal(err)
	}
	// the crash: f is never closed or discarded

	if _, err := NewSnapshotStorage(dir); err != nil {
		_, err2 := NewSnapshotStorage(dir)
		t.Fatalf("first NewSnapshotStorage after the crash: %v (second attempt: %v)", err, err2)
	}
}
