// Package vtime replaces "time" in the instrumented build of the library.
// With an active scheduler every node has its own virtual clock, owned by the
// harness; Sleep and After block until the harness fires them.
package vtime

import (
	"time"

	"github.com/jmsadair/raft/verifshim/vsched"
)

type (
	Time     = time.Time
	Duration = time.Duration
	Month    = time.Month
)

const (
	Nanosecond  = time.Nanosecond
	Microsecond = time.Microsecond
	Millisecond = time.Millisecond
	Second      = time.Second
	Minute      = time.Minute
	Hour        = time.Hour
)

var Epoch = time.Unix(1_000_000_000, 0)

// Clock is one node's virtual clock: nanoseconds since Epoch. Every reading
// adds one nanosecond so that readings are strictly increasing, as real
// readings are (snapshot directory names depend on it).
type Clock struct {
	Ns    int64
	Reads int64
}

var clocks = map[int]*Clock{}

// Sleeper is a task blocked in Sleep.
type Sleeper struct {
	Task     *vsched.Task
	Node     int
	D        Duration
	Deadline int64 // on the node's clock, ns since epoch
	Fired    bool
}

// Timer is a pending After channel.
type Timer struct {
	Node     int
	D        Duration
	Deadline int64
	Ch       chan Time
	Fired    bool
}

var (
	Sleepers []*Sleeper
	Timers   []*Timer
)

//go:norace
func Reset() {
	clocks = map[int]*Clock{}
	Sleepers = nil
	Timers = nil
}

//go:norace
func ClockOf(node int) *Clock {
	c := clocks[node]
	if c == nil {
		c = &Clock{}
		clocks[node] = c
	}
	return c
}

// Advance moves node's clock forward.
//go:norace
func Advance(node int, d Duration) { ClockOf(node).Ns += int64(d) }

// NowOf reads a node's clock without ticking it.
//go:norace
func NowOf(node int) int64 { c := ClockOf(node); return c.Ns + c.Reads }

//go:norace
func Now() Time {
	if !vsched.Active {
		return time.Now()
	}
	c := ClockOf(vsched.CurNode())
	c.Reads++
	return Epoch.Add(Duration(c.Ns)).Add(Duration(c.Reads))
}

// ToNs converts a library time value back to clock nanoseconds (without the
// read counter's influence being removed; callers compare coarsely).
//go:norace
func ToNs(t Time) int64 { return int64(t.Sub(Epoch)) }

//go:norace
func Since(t Time) Duration { return Now().Sub(t) }
//go:norace
func Until(t Time) Duration { return t.Sub(Now()) }

//go:norace
func Sleep(d Duration) {
	if !vsched.Active {
		time.Sleep(d)
		return
	}
	if vsched.Poisoned() {
		return
	}
	node := vsched.CurNode()
	s := &Sleeper{Task: vsched.Cur(), Node: node, D: d, Deadline: ClockOf(node).Ns + int64(d)}
	Sleepers = append(Sleepers, s)
	vsched.Block("sleep", s, sleeperFired{s}.ok)
	// remove
	for i, x := range Sleepers {
		if x == s {
			Sleepers = append(Sleepers[:i:i], Sleepers[i+1:]...)
			break
		}
	}
}

// LiveSleepers returns sleepers whose task is still alive.
//go:norace
func LiveSleepers() []*Sleeper {
	j := 0
	for _, s := range Sleepers {
		if s.Task != nil && !s.Task.Done && !s.Task.Poisoned {
			Sleepers[j] = s
			j++
		}
	}
	Sleepers = Sleepers[:j]
	return Sleepers
}

//go:norace
func After(d Duration) <-chan Time {
	if !vsched.Active {
		return time.After(d)
	}
	node := vsched.CurNode()
	t := &Timer{Node: node, D: d, Deadline: ClockOf(node).Ns + int64(d), Ch: make(chan Time, 1)}
	Timers = append(Timers, t)
	return t.Ch
}

// Fire delivers a timer.
//go:norace
func (t *Timer) Fire() {
	if !t.Fired {
		t.Fired = true
		t.Ch <- Epoch.Add(Duration(t.Deadline))
	}
}

//go:norace
func Unix(sec, nsec int64) Time { return time.Unix(sec, nsec) }


type sleeperFired struct{ s *Sleeper }

//go:norace
func (r sleeperFired) ok() bool { return r.s.Fired }
