// Package vsched is the cooperative deterministic scheduler that the
// instrumented build of jmsadair/raft runs under. It is mounted into the raft
// module by `go build -overlay` as github.com/jmsadair/raft/verifshim/vsched and
// does not exist in /repo.
//
// Invariant: when Active, exactly one goroutine runs at any time: either the
// controller (the harness goroutine that called Reset) or one managed Task. All
// scheduler state is therefore accessed without locks.
package vsched

import (
	"fmt"
	"runtime"
	"sort"
	"strings"
)

// Point kinds (scheduling points).
const (
	PLock = iota
	PUnlock
	PSpawn
	PCondWait
	PSignal
	PStorage
	PFsm
	PNet
	PUser
)

type Task struct {
	ID   int
	Name string // canonical name: n<node>/<func>(<printable args>)
	Seq  int    // sequence number among tasks with the same Name (creation order)
	Node int
	Inc  int // incarnation of the node at spawn time
	Args []any

	g gate

	// Blocked state. ready == nil means runnable.
	ready     func() bool
	BlockKind string
	BlockObj  any

	Poisoned bool
	Done     bool
	started  bool
	fn       func()

	// Tag is free for the harness (e.g. message id a handler task serves).
	Tag string
	w   *worker
}

//go:norace
func (t *Task) String() string { return fmt.Sprintf("%s#%d", t.Name, t.Seq) }

// Key orders tasks canonically.
//go:norace
func (t *Task) less(o *Task) bool {
	if t.Name != o.Name {
		return t.Name < o.Name
	}
	return t.Seq < o.Seq
}

// Strategy decides which enabled task runs next at a scheduling point.
// enabled is sorted canonically. cur is the task that just hit the point (nil
// when the controller asks); curEnabled tells whether it could continue.
type Strategy interface {
	Pick(enabled []*Task, cur *Task, curEnabled bool, point int) *Task
}

var (
	Active  bool
	cur     *Task
	tasks   []*Task
	nextID  int
	nameSeq map[string]int
	ctl     gate
	strat   Strategy // nil = canonical: keep running cur, else lowest name
	CtlNode = -1     // node context for controller-mode calls
	CtlInc  int
	NodeInc = map[int]int{} // current incarnation per node
	// Panics recorded from managed tasks: task name + value.
	Panics []string
	// Fatal hook: called (on the task goroutine) when library code calls os.Exit.
	OnExit func(node int, code int)
	// Steps counts resumptions (for evidence).
	Steps int64
	// YieldPoints: when true, Yield() consults the strategy (SCHED mode).
	YieldPoints bool
	// Trace, when non-nil, receives (task, kind) at every resumption.
	Trace func(t *Task, why string)
)

type poisonExit struct{}

// Reset starts a new execution. Any task left over from the previous one must
// have been killed (KillAll).
//go:norace
func Reset() {
	for _, t := range tasks {
		if !t.Done {
			panic("vsched.Reset: live task left over: " + t.String())
		}
	}
	Active = true
	cur = nil
	tasks = tasks[:0]
	nextID = 0
	nameSeq = map[string]int{}
	strat = nil
	CtlNode = -1
	CtlInc = 0
	NodeInc = map[int]int{}
	Panics = nil
	YieldPoints = false
	interrupted = false
	ctl = newGate()
}

//go:norace
func SetStrategy(s Strategy) { strat = s }

// Cur returns the running managed task, or nil for the controller.
//go:norace
func Cur() *Task { return cur }

// CurNode returns the node context of the caller.
//go:norace
func CurNode() int {
	if cur != nil {
		return cur.Node
	}
	return CtlNode
}

//go:norace
func CurInc() int {
	if cur != nil {
		return cur.Inc
	}
	return CtlInc
}

// Poisoned reports whether the caller is a task being torn down; shim
// primitives are no-ops for it.
//go:norace
func Poisoned() bool { return cur != nil && cur.Poisoned }

//go:norace
func render(args []any) string {
	var b strings.Builder
	for i, a := range args {
		if i > 0 {
			b.WriteByte(',')
		}
		switch v := a.(type) {
		case string:
			b.WriteString(v)
		case bool:
			fmt.Fprintf(&b, "%t", v)
		case int, int64, uint64, uint32, int32:
			fmt.Fprintf(&b, "%d", v)
		default:
			b.WriteByte('*')
		}
	}
	return b.String()
}

// Go is what every `go f(args)` statement of the library is rewritten to.
//go:norace
func Go(name string, fn func(), args ...any) {
	if !Active {
		go fn()
		return
	}
	if Poisoned() {
		return
	}
	node, inc := CurNode(), CurInc()
	full := fmt.Sprintf("n%d/%s(%s)", node, name, render(args))
	newTask(node, inc, full, fn, args)
	// No scheduling point here: spawn loops of the library iterate over maps,
	// so the set of siblings existing at this instant depends on map order and
	// a decision taken here would not be replayable. The new task is
	// considered at the spawner's next synchronisation operation; every
	// goroutine the library starts begins by taking the node lock, which the
	// spawner holds, so no behaviour is lost.
}

// Spawn creates a managed task on behalf of the harness.
//go:norace
func Spawn(node int, name string, fn func()) *Task {
	return newTask(node, NodeInc[node], fmt.Sprintf("n%d/%s", node, name), fn, nil)
}

//go:norace
func newTask(node, inc int, name string, fn func(), args []any) *Task {
	t := &Task{ID: nextID, Name: name, Seq: nameSeq[name], Node: node, Inc: inc, Args: args, fn: fn, g: newGate()}
	nameSeq[name]++
	nextID++
	tasks = append(tasks, t)
	if raceBuild {
		// real fork edge from the spawning goroutine (the body parks on its gate)
		t.started = true
		go t.body()
	}
	return t
}

//go:norace
func (t *Task) body() {
	t.g.wait()
	defer t.finish()
	if t.Poisoned {
		return
	}
	t.fn()
}

// Tasks returns the live tasks in canonical order.
//go:norace
func Tasks() []*Task {
	out := make([]*Task, 0, len(tasks))
	for _, t := range tasks {
		if !t.Done {
			out = append(out, t)
		}
	}
	sort.Slice(out, func(i, j int) bool { return out[i].less(out[j]) })
	return out
}

//go:norace
func compact() {
	j := 0
	for _, t := range tasks {
		if !t.Done {
			tasks[j] = t
			j++
		} else if t.w != nil {
			pool = append(pool, t.w)
			t.w = nil
		}
	}
	for k := j; k < len(tasks); k++ {
		tasks[k] = nil
	}
	tasks = tasks[:j]
}

//go:norace
func enabledTasks() []*Task {
	var out []*Task
	for _, t := range tasks {
		if t.Done {
			continue
		}
		if t.ready == nil || t.ready() {
			out = append(out, t)
		}
	}
	sort.Slice(out, func(i, j int) bool { return out[i].less(out[j]) })
	return out
}

// Enabled returns the currently enabled tasks (controller use).
//go:norace
func Enabled() []*Task { return enabledTasks() }

// resume hands control from the controller to t and waits until it comes back.
//go:norace
func resume(t *Task, why string) {
	if cur != nil {
		panic("vsched.resume: not in controller")
	}
	Steps++
	if Trace != nil {
		Trace(t, why)
	}
	cur = t
	t.ready = nil
	t.BlockKind = ""
	t.BlockObj = nil
	if !t.started {
		t.started = true
		startBody(t)
	}
	t.g.open()
	ctl.wait()
}

// Pooled goroutines keep their grown stacks between tasks (stack growth was
// 15% of the run time). Race builds use a fresh goroutine per task so that the
// detector sees a real fork edge from the spawner.
type worker struct {
	next chan *Task
}

var pool []*worker

//go:norace
func startBody(t *Task) {
	if raceBuild {
		go t.body()
		return
	}
	var w *worker
	if n := len(pool); n > 0 {
		w = pool[n-1]
		pool = pool[:n-1]
	} else {
		w = &worker{next: make(chan *Task, 1)}
		go func() {
			for task := range w.next {
				task.body()
				// body's deferred hand-back already gave control away; the
				// pool list is only touched by the controller (see release).
			}
		}()
	}
	t.w = w
	w.next <- t
}

// toController parks the running task and gives control to the controller.
//go:norace
func toController(t *Task) {
	cur = nil
	ctl.open()
	t.g.wait()
	// resumed: cur has been set by resume()
	if t.Poisoned {
		panic(poisonExit{})
	}
}

// Block parks the running task until ready() holds. Called from shim
// primitives on the task's own goroutine.
//go:norace
func Block(kind string, obj any, ready func() bool) {
	t := cur
	if t == nil {
		panic(fmt.Sprintf("INFRA: controller would block on %s", kind))
	}
	if t.Poisoned {
		panic(poisonExit{})
	}
	t.ready = ready
	t.BlockKind = kind
	t.BlockObj = obj
	toController(t)
}

// Yield is a scheduling point at which the running task stays enabled.
//go:norace
func Yield(point int) {
	t := cur
	if t == nil || !YieldPoints || t.Poisoned {
		return
	}
	t.ready = nil
	t.BlockKind = "yield"
	t.BlockObj = point
	toController(t)
}

// Run lets managed tasks run until none is enabled (quiescence) or maxSteps
// resumptions happened. It returns false when the step cap was hit.
//go:norace
func Run(maxSteps int) bool {
	if cur != nil {
		panic("vsched.Run: not in controller")
	}
	var last *Task
	for n := 0; ; n++ {
		if interrupted {
			return true
		}
		en := enabledTasks()
		if len(en) == 0 {
			compact()
			return true
		}
		if n >= maxSteps {
			return false
		}
		var pick *Task
		if strat != nil {
			curEnabled := false
			for _, t := range en {
				if t == last {
					curEnabled = true
				}
			}
			point := -1
			if last != nil && curEnabled {
				if p, ok := last.BlockObj.(int); ok {
					point = p
				}
			}
			pick = strat.Pick(en, last, curEnabled, point)
		} else {
			pick = en[0]
		}
		resume(pick, "run")
		last = pick
		if pick.Done {
			last = nil
		}
	}
}

// RunTask resumes one specific enabled task until its next block/yield.
//go:norace
func RunTask(t *Task) {
	resume(t, "runtask")
}

// Kill poisons every live task of node (all nodes if node < -1 is not used;
// pass pred) and lets each one unwind. Deferred library code runs against
// no-op shims.
//go:norace
func Kill(pred func(*Task) bool) {
	if cur != nil {
		panic("vsched.Kill: not in controller")
	}
	for i := 0; i < len(tasks); i++ {
		t := tasks[i]
		if t.Done || !pred(t) {
			continue
		}
		t.Poisoned = true
		if !t.started {
			t.Done = true
			continue
		}
		resume(t, "kill")
		if !t.Done {
			panic("INFRA: poisoned task did not finish: " + t.String() + " blocked on " + t.BlockKind)
		}
	}
	compact()
}

// KillAll ends the execution.
//go:norace
func KillAll() {
	Kill(func(*Task) bool { return true })
}

// Deactivate leaves scheduler mode (passthrough primitives).
//go:norace
func Deactivate() { Active = false; cur = nil }

// Exit is what os.Exit in the library's logger is redirected to.
//go:norace
func Exit(code int) {
	if !Active {
		panic(fmt.Sprintf("vsched.Exit(%d) outside scheduler", code))
	}
	node := CurNode()
	if OnExit != nil {
		OnExit(node, code)
	}
	if cur != nil {
		cur.Poisoned = true
		panic(poisonExit{})
	}
	panic(ExitPanic{Node: node, Code: code})
}

// ExitPanic is raised on the controller goroutine when library code running
// in controller mode (NewRaft, Status ...) calls os.Exit.
type ExitPanic struct{ Node, Code int }

// RandHook answers the library's random draws when Active.
var RandHook func(n int64) int64

// Interrupt makes the current Run return after the running task parks.
var interrupted bool

//go:norace
func Interrupt() { interrupted = true }

// Interrupted reports and clears the flag.
//go:norace
func Interrupted() bool { v := interrupted; interrupted = false; return v }


// finish is the deferred tail of every task body (a named norace method: a
// closure would be instrumented by the race detector).
//
//go:norace
func (t *Task) finish() {
	if r := recover(); r != nil {
		if _, ok := r.(poisonExit); !ok {
			buf := make([]byte, 4096)
			n := runtime.Stack(buf, false)
			Panics = append(Panics, fmt.Sprintf("%s: %v\n%s", t.String(), r, buf[:n]))
		}
	}
	t.Done = true
	t.ready = nil
	cur = nil
	ctl.open()
}
