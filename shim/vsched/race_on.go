//go:build race

package vsched

const raceBuild = true
