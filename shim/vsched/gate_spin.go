//go:build race

package vsched

import "runtime"

// Race builds: the hand-off must not create a happens-before edge the race
// detector can see, otherwise every access would look ordered under a
// cooperative scheduler. A plain flag polled inside //go:norace functions is
// invisible to the detector, so only the library's own synchronisation (real
// mutexes inside vsync, real go statements) orders accesses.
type gateS struct{ flag bool }
type gate = *gateS

//go:norace
func newGate() gate { return &gateS{} }

//go:norace
func (g *gateS) open() { g.flag = true }

//go:norace
func (g *gateS) wait() {
	for !g.flag {
		runtime.Gosched()
	}
	g.flag = false
}
