//go:build !race

package vsched

// Plain builds: channel hand-off.
type gate chan struct{}

func newGate() gate   { return make(chan struct{}, 1) }
func (g gate) open()  { g <- struct{}{} }
func (g gate) wait()  { <-g }
