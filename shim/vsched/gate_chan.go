//go:build !race

package vsched

// Plain builds: channel hand-off.
type gate chan struct{}

//go:norace
func newGate() gate   { return make(chan struct{}, 1) }
//go:norace
func (g gate) open()  { g <- struct{}{} }
//go:norace
func (g gate) wait()  { <-g }
