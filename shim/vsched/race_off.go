//go:build !race

package vsched

const raceBuild = false
