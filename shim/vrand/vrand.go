// Package vrand replaces "math/rand" in the instrumented build.
package vrand

import (
	"math/rand"

	"github.com/jmsadair/raft/verifshim/vsched"
)

//go:norace
func Int63n(n int64) int64 {
	if vsched.Active && vsched.RandHook != nil {
		return vsched.RandHook(n)
	}
	if vsched.Active {
		return 0
	}
	return rand.Int63n(n)
}

//go:norace
func Intn(n int) int { return int(Int63n(int64(n))) }
//go:norace
func Int() int       { return int(Int63n(1 << 62)) }
//go:norace
func Int63() int64   { return Int63n(1 << 62) }
