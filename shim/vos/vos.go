// Package vos replaces "os" in the instrumented build of the library's
// storage and logging code. Every call is passed to the real file system; an
// optional interceptor numbers the calls, can deny one (crash before it), cut
// a write short (torn write) and deny everything afterwards (the process is
// dead: nothing it still executes can reach the disk).
package vos

import (
	"errors"
	"fmt"
	"io/fs"
	"os"
	"path/filepath"

	"github.com/jmsadair/raft/verifshim/vsched"
)

type (
	FileInfo = os.FileInfo
	FileMode = os.FileMode
	DirEntry = os.DirEntry
	PathError = os.PathError
)

const (
	O_RDONLY = os.O_RDONLY
	O_WRONLY = os.O_WRONLY
	O_RDWR   = os.O_RDWR
	O_APPEND = os.O_APPEND
	O_CREATE = os.O_CREATE
	O_EXCL   = os.O_EXCL
	O_SYNC   = os.O_SYNC
	O_TRUNC  = os.O_TRUNC

	ModePerm = os.ModePerm
	ModeDir  = os.ModeDir
)

var (
	ErrNotExist   = os.ErrNotExist
	ErrExist      = os.ErrExist
	ErrPermission = os.ErrPermission
	ErrClosed     = os.ErrClosed
	ErrCrashed    = errors.New("vos: process crashed (injected)")

	// The library's logger writes to "os.Stderr": in check binaries that is a
	// sink (killed incarnations print FATAL lines), unless VERIF_LIBLOG is set.
	Stderr = logSink()
	Stdout = os.Stdout
	Stdin  = os.Stdin
)

// Call describes one intercepted file-system call.
type Call struct {
	Node, Inc int
	Op        string
	Path      string
	Path2     string
	N         int  // bytes for Write, size for Truncate
	Mutating  bool // changes what a later process can observe on disk
}

// Verdict of the interceptor.
const (
	Proceed = -1
	Deny    = -2
	// any value >= 0 on a Write: write only that many bytes, then deny.
)

// Intercept, if set, is consulted before every call. After is told when a
// call that was allowed has completed.
var (
	Intercept func(c *Call) int
	After     func(c *Call, err error)
	// TempName, if set, makes CreateTemp/MkdirTemp deterministic.
	TempName func(dir, pattern string) string
	// ExitHook is used when no scheduler is active.
	ExitHook func(code int)
)

func Reset() { Intercept = nil; After = nil; TempName = nil; ExitHook = nil }

func pre(op, path, path2 string, n int, mut bool) (*Call, int) {
	if Intercept == nil {
		return nil, Proceed
	}
	c := &Call{Node: vsched.CurNode(), Inc: vsched.CurInc(), Op: op, Path: path, Path2: path2, N: n, Mutating: mut}
	return c, Intercept(c)
}

func post(c *Call, err error) {
	if c != nil && After != nil {
		After(c, err)
	}
}

func Exit(code int) {
	if vsched.Active {
		vsched.Exit(code)
		return
	}
	if ExitHook != nil {
		ExitHook(code)
		return
	}
	os.Exit(code)
}

func MkdirAll(path string, perm FileMode) error {
	c, v := pre("MkdirAll", path, "", 0, true)
	if v != Proceed {
		return ErrCrashed
	}
	err := os.MkdirAll(path, perm)
	post(c, err)
	return err
}

func Mkdir(path string, perm FileMode) error {
	c, v := pre("Mkdir", path, "", 0, true)
	if v != Proceed {
		return ErrCrashed
	}
	err := os.Mkdir(path, perm)
	post(c, err)
	return err
}

type File struct {
	f    *os.File
	name string
}

func wrap(f *os.File, err error) (*File, error) {
	if err != nil {
		return nil, err
	}
	if Track {
		tracked = append(tracked, f)
	}
	return &File{f: f, name: f.Name()}, nil
}

// Track, when set, registers every descriptor opened through this package so
// that a single-threaded harness (the CRASH engine) can close what the library
// leaks: SetState never closes its temporary file, and a crashed incarnation
// closes nothing. Not safe for concurrent use; off by default.
var (
	Track   bool
	tracked []*os.File
)

// CloseTracked closes every registered descriptor that is still open and
// empties the registry. It returns how many were still open.
func CloseTracked() int {
	n := 0
	for _, f := range tracked {
		if f.Close() == nil {
			n++
		}
	}
	tracked = tracked[:0]
	return n
}

// TrackedCount is the number of descriptors currently registered.
func TrackedCount() int { return len(tracked) }

func OpenFile(name string, flag int, perm FileMode) (*File, error) {
	c, v := pre("OpenFile", name, "", flag, flag&(O_CREATE|O_TRUNC) != 0)
	if v != Proceed {
		return nil, ErrCrashed
	}
	f, err := wrap(os.OpenFile(name, flag, perm))
	post(c, err)
	return f, err
}

func Create(name string) (*File, error) {
	c, v := pre("Create", name, "", 0, true)
	if v != Proceed {
		return nil, ErrCrashed
	}
	f, err := wrap(os.Create(name))
	post(c, err)
	return f, err
}

func Open(name string) (*File, error) {
	c, v := pre("Open", name, "", 0, false)
	if v != Proceed {
		return nil, ErrCrashed
	}
	f, err := wrap(os.Open(name))
	post(c, err)
	return f, err
}

func tempName(dir, pattern string) (string, bool) {
	if TempName == nil {
		return "", false
	}
	return filepath.Join(dir, TempName(dir, pattern)), true
}

func CreateTemp(dir, pattern string) (*File, error) {
	c, v := pre("CreateTemp", filepath.Join(dir, pattern), "", 0, true)
	if v != Proceed {
		return nil, ErrCrashed
	}
	var f *File
	var err error
	if name, ok := tempName(dir, pattern); ok {
		f, err = wrap(os.OpenFile(name, os.O_RDWR|os.O_CREATE|os.O_EXCL, 0o600))
	} else {
		f, err = wrap(os.CreateTemp(dir, pattern))
	}
	if c != nil && f != nil {
		c.Path = f.name
	}
	post(c, err)
	return f, err
}

func MkdirTemp(dir, pattern string) (string, error) {
	c, v := pre("MkdirTemp", filepath.Join(dir, pattern), "", 0, true)
	if v != Proceed {
		return "", ErrCrashed
	}
	var name string
	var err error
	if n, ok := tempName(dir, pattern); ok {
		name = n
		err = os.Mkdir(n, 0o700)
	} else {
		name, err = os.MkdirTemp(dir, pattern)
	}
	if c != nil {
		c.Path = name
	}
	post(c, err)
	return name, err
}

func Rename(oldpath, newpath string) error {
	c, v := pre("Rename", oldpath, newpath, 0, true)
	if v != Proceed {
		return ErrCrashed
	}
	err := os.Rename(oldpath, newpath)
	post(c, err)
	return err
}

func Remove(name string) error {
	c, v := pre("Remove", name, "", 0, true)
	if v != Proceed {
		return ErrCrashed
	}
	err := os.Remove(name)
	post(c, err)
	return err
}

func RemoveAll(path string) error {
	c, v := pre("RemoveAll", path, "", 0, true)
	if v != Proceed {
		return ErrCrashed
	}
	err := os.RemoveAll(path)
	post(c, err)
	return err
}

func ReadDir(name string) ([]DirEntry, error) {
	c, v := pre("ReadDir", name, "", 0, false)
	if v != Proceed {
		return nil, ErrCrashed
	}
	e, err := os.ReadDir(name)
	post(c, err)
	return e, err
}

func ReadFile(name string) ([]byte, error) {
	c, v := pre("ReadFile", name, "", 0, false)
	if v != Proceed {
		return nil, ErrCrashed
	}
	b, err := os.ReadFile(name)
	post(c, err)
	return b, err
}

func WriteFile(name string, data []byte, perm FileMode) error {
	f, err := OpenFile(name, O_WRONLY|O_CREATE|O_TRUNC, perm)
	if err != nil {
		return err
	}
	_, err = f.Write(data)
	if err1 := f.Close(); err1 != nil && err == nil {
		err = err1
	}
	return err
}

func Stat(name string) (FileInfo, error) {
	c, v := pre("Stat", name, "", 0, false)
	if v != Proceed {
		return nil, ErrCrashed
	}
	fi, err := os.Stat(name)
	post(c, err)
	return fi, err
}

func Lstat(name string) (FileInfo, error) {
	c, v := pre("Lstat", name, "", 0, false)
	if v != Proceed {
		return nil, ErrCrashed
	}
	fi, err := os.Lstat(name)
	post(c, err)
	return fi, err
}

func IsNotExist(err error) bool { return os.IsNotExist(err) }
func IsExist(err error) bool    { return os.IsExist(err) }
func Getpid() int               { return os.Getpid() }
func TempDir() string           { return os.TempDir() }
func Getenv(k string) string    { return os.Getenv(k) }

func (f *File) Name() string { return f.name }

func (f *File) Read(p []byte) (int, error) {
	c, v := pre("Read", f.name, "", len(p), false)
	if v != Proceed {
		return 0, ErrCrashed
	}
	n, err := f.f.Read(p)
	post(c, nil)
	return n, err
}

func (f *File) ReadAt(p []byte, off int64) (int, error) {
	c, v := pre("ReadAt", f.name, "", len(p), false)
	if v != Proceed {
		return 0, ErrCrashed
	}
	n, err := f.f.ReadAt(p, off)
	post(c, nil)
	return n, err
}

func (f *File) Write(p []byte) (int, error) {
	c, v := pre("Write", f.name, "", len(p), true)
	if v == Deny {
		return 0, ErrCrashed
	}
	if v >= 0 {
		if v > len(p) {
			v = len(p)
		}
		n, _ := f.f.Write(p[:v])
		return n, ErrCrashed
	}
	n, err := f.f.Write(p)
	post(c, err)
	return n, err
}

func (f *File) WriteString(s string) (int, error) { return f.Write([]byte(s)) }

func (f *File) WriteAt(p []byte, off int64) (int, error) {
	c, v := pre("WriteAt", f.name, "", len(p), true)
	if v == Deny {
		return 0, ErrCrashed
	}
	if v >= 0 {
		if v > len(p) {
			v = len(p)
		}
		n, _ := f.f.WriteAt(p[:v], off)
		return n, ErrCrashed
	}
	n, err := f.f.WriteAt(p, off)
	post(c, err)
	return n, err
}

func (f *File) Seek(offset int64, whence int) (int64, error) {
	c, v := pre("Seek", f.name, "", int(offset), false)
	if v != Proceed {
		return 0, ErrCrashed
	}
	n, err := f.f.Seek(offset, whence)
	post(c, err)
	return n, err
}

func (f *File) Sync() error {
	c, v := pre("Sync", f.name, "", 0, false)
	if v != Proceed {
		return ErrCrashed
	}
	err := f.f.Sync()
	post(c, err)
	return err
}

func (f *File) Truncate(size int64) error {
	c, v := pre("Truncate", f.name, "", int(size), true)
	if v != Proceed {
		return ErrCrashed
	}
	err := f.f.Truncate(size)
	post(c, err)
	return err
}

func (f *File) Close() error {
	c, v := pre("Close", f.name, "", 0, false)
	if v != Proceed {
		// the descriptor of a dead process is closed by the kernel
		_ = f.f.Close()
		return ErrCrashed
	}
	err := f.f.Close()
	post(c, err)
	return err
}

func (f *File) Stat() (FileInfo, error) { return f.f.Stat() }

func (f *File) Readdirnames(n int) ([]string, error) { return f.f.Readdirnames(n) }
func (f *File) ReadDir(n int) ([]DirEntry, error)    { return f.f.ReadDir(n) }
func (f *File) Fd() uintptr                          { return f.f.Fd() }
func (f *File) Chmod(m FileMode) error               { return f.f.Chmod(m) }

// Real gives the harness access to the underlying file (e.g. to close leaked
// descriptors of a dead incarnation).
func (f *File) Real() *os.File { return f.f }

var _ = fs.ModePerm
var _ = fmt.Sprint


func logSink() *os.File {
	if os.Getenv("VERIF_LIBLOG") != "" {
		return os.Stderr
	}
	if f, err := os.OpenFile(os.DevNull, os.O_WRONLY, 0); err == nil {
		return f
	}
	return os.Stderr
}
