//go:build verif

package raft

import (
	"bytes"
	realos "os"
	"time"

	pb "github.com/jmsadair/raft/internal/protobuf"
	"google.golang.org/protobuf/proto"
)

// This file exists only in the verification overlay (it is not part of
// /repo). It gives the harness read access to futures and pushes requests
// through the library's own wire converters.

// VerifPollOperation does a non-blocking receive on an operation future.
func VerifPollOperation(f Future[OperationResponse]) (OperationResponse, error, bool) {
	ff, ok := f.(*future[OperationResponse])
	if !ok {
		return OperationResponse{}, nil, false
	}
	select {
	case r := <-ff.responseCh:
		return r.Success(), r.Error(), true
	default:
		return OperationResponse{}, nil, false
	}
}

// VerifPollConfiguration does a non-blocking receive on a membership future.
func VerifPollConfiguration(f Future[Configuration]) (Configuration, error, bool) {
	ff, ok := f.(*future[Configuration])
	if !ok {
		return Configuration{}, nil, false
	}
	select {
	case r := <-ff.responseCh:
		return r.Success(), r.Error(), true
	default:
		return Configuration{}, nil, false
	}
}

// VerifFutureChan exposes the identity of a future's channel (for the state key).
func VerifFutureChan(f any) any {
	switch ff := f.(type) {
	case *future[OperationResponse]:
		return ff.responseCh
	case *future[Configuration]:
		return ff.responseCh
	}
	return nil
}

func VerifFutureReady(f any) bool {
	switch ff := f.(type) {
	case *future[OperationResponse]:
		return len(ff.responseCh) > 0 || ff.response != nil
	case *future[Configuration]:
		return len(ff.responseCh) > 0 || ff.response != nil
	}
	return false
}

// VerifView is a lock-free copy of the scalar protocol state of a node, read by
// monitors at quiescent points (no managed task is running).
type VerifView struct {
	ID                string
	State             State
	Term              uint64
	VotedFor          string
	CommitIndex       uint64
	LastApplied       uint64
	LastIncludedIndex uint64
	LastIncludedTerm  uint64
	LeaderID          string
	HasConfiguration  bool
	Configuration     *Configuration // shared with the node: read-only
	HasCommitted      bool
	Committed         *Configuration
	MuHeld            bool
	LastContact       time.Time
	LeaseExpiration   time.Time
}

func VerifViewOf(r *Raft) VerifView {
	v := VerifView{
		ID: r.id, State: r.state, Term: r.currentTerm, VotedFor: r.votedFor,
		CommitIndex: r.commitIndex, LastApplied: r.lastApplied,
		LastIncludedIndex: r.lastIncludedIndex, LastIncludedTerm: r.lastIncludedTerm,
		LeaderID: r.leaderID, MuHeld: r.mu.Held, LastContact: r.lastContact,
	}
	if r.operationManager != nil && r.operationManager.leaderLease != nil {
		v.LeaseExpiration = r.operationManager.leaderLease.expiration
	}
	if r.configuration != nil {
		v.HasConfiguration = true
		v.Configuration = r.configuration
	}
	if r.committedConfiguration != nil {
		v.HasCommitted = true
		v.Committed = r.committedConfiguration
	}
	return v
}

// Wire round trips through the library's own converters and the protobuf
// codec, so that simulated messages have wire semantics (deep copies, empty
// byte slices arrive as nil, ...).

func VerifWireAppendEntriesRequest(r AppendEntriesRequest) (AppendEntriesRequest, []byte) {
	b, err := proto.Marshal(makeProtoAppendEntriesRequest(r))
	if err != nil {
		panic(err)
	}
	m := &pb.AppendEntriesRequest{}
	if err := proto.Unmarshal(b, m); err != nil {
		panic(err)
	}
	return makeAppendEntriesRequest(m), b
}

func VerifWireAppendEntriesResponse(r AppendEntriesResponse) (AppendEntriesResponse, []byte) {
	b, err := proto.Marshal(makeProtoAppendEntriesResponse(r))
	if err != nil {
		panic(err)
	}
	m := &pb.AppendEntriesResponse{}
	if err := proto.Unmarshal(b, m); err != nil {
		panic(err)
	}
	return makeAppendEntriesResponse(m), b
}

func VerifWireRequestVoteRequest(r RequestVoteRequest) (RequestVoteRequest, []byte) {
	b, err := proto.Marshal(makeProtoRequestVoteRequest(r))
	if err != nil {
		panic(err)
	}
	m := &pb.RequestVoteRequest{}
	if err := proto.Unmarshal(b, m); err != nil {
		panic(err)
	}
	return makeRequestVoteRequest(m), b
}

func VerifWireRequestVoteResponse(r RequestVoteResponse) (RequestVoteResponse, []byte) {
	b, err := proto.Marshal(makeProtoRequestVoteResponse(r))
	if err != nil {
		panic(err)
	}
	m := &pb.RequestVoteResponse{}
	if err := proto.Unmarshal(b, m); err != nil {
		panic(err)
	}
	return makeRequestVoteResponse(m), b
}

func VerifWireInstallSnapshotRequest(r InstallSnapshotRequest) (InstallSnapshotRequest, []byte) {
	b, err := proto.Marshal(makeProtoInstallSnapshotRequest(r))
	if err != nil {
		panic(err)
	}
	m := &pb.InstallSnapshotRequest{}
	if err := proto.Unmarshal(b, m); err != nil {
		panic(err)
	}
	return makeInstallSnapshotRequest(m), b
}

func VerifWireInstallSnapshotResponse(r InstallSnapshotResponse) (InstallSnapshotResponse, []byte) {
	b, err := proto.Marshal(makeProtoInstallSnapshotResponse(r))
	if err != nil {
		panic(err)
	}
	m := &pb.InstallSnapshotResponse{}
	if err := proto.Unmarshal(b, m); err != nil {
		panic(err)
	}
	return makeInstallSnapshotResponse(m), b
}

// VerifEncodeConfiguration / VerifDecodeConfiguration are the library's own
// configuration codec (what the bundled transport delegates to).
func VerifEncodeConfiguration(c *Configuration) ([]byte, error) { return encodeConfiguration(c) }
func VerifDecodeConfiguration(b []byte) (Configuration, error)  { return decodeConfiguration(b) }

// VerifLogEntries returns copies of the in-memory entries of the bundled
// file-backed log (including the placeholder at position 0), nil for other
// implementations or a closed log.
func VerifLogEntries(l Log) []LogEntry {
	pl, ok := l.(*persistentLog)
	if !ok || pl.entries == nil {
		return nil
	}
	out := make([]LogEntry, len(pl.entries))
	for i, e := range pl.entries {
		out[i] = *e
		out[i].Data = append([]byte(nil), e.Data...)
	}
	return out
}

// VerifReadStateFile decodes the term/vote file under dataPath the way the
// bundled StateStorage would, using the real file system (no interception).
func VerifReadStateFile(dataPath string) (uint64, string, bool) {
	data, err := realReadFile(dataPath + "/" + stateDirBase + "/" + stateBase)
	if err != nil {
		return 0, "", false
	}
	st, err := decodePersistentState(bytes.NewReader(data))
	if err != nil {
		return 0, "", false
	}
	return st.term, st.votedFor, true
}

func realReadFile(p string) ([]byte, error) { return realos.ReadFile(p) }
