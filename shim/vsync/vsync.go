// Package vsync replaces "sync" in the instrumented build of the library.
// Without an active scheduler every primitive passes through to the real one.
package vsync

import (
	"sync"

	"github.com/jmsadair/raft/verifshim/vsched"
)

type Locker = sync.Locker

type Mutex struct {
	real  sync.Mutex
	Held  bool
	Owner *vsched.Task
}

//go:norace
func (m *Mutex) Lock() {
	if !vsched.Active {
		m.real.Lock()
		return
	}
	if vsched.Poisoned() {
		return
	}
	vsched.Yield(vsched.PLock)
	if m.Held {
		if vsched.Cur() == nil {
			panic("INFRA: controller Lock on a held mutex")
		}
		vsched.Block("mutex", m, mutexFree{m}.ok)
	}
	m.acquire()
}

//go:norace
func (m *Mutex) acquire() {
	m.Held = true
	m.Owner = vsched.Cur()
	m.real.Lock()
}

//go:norace
func (m *Mutex) Unlock() {
	if !vsched.Active {
		m.real.Unlock()
		return
	}
	if vsched.Poisoned() {
		return
	}
	if !m.Held {
		panic("sync: unlock of unlocked mutex")
	}
	m.Held = false
	m.Owner = nil
	m.real.Unlock()
	vsched.Yield(vsched.PUnlock)
}

//go:norace
func (m *Mutex) TryLock() bool {
	if !vsched.Active {
		return m.real.TryLock()
	}
	if m.Held {
		return false
	}
	m.acquire()
	return true
}

type waiter struct {
	t        *vsched.Task
	signaled bool
}

type Cond struct {
	L       Locker
	real    *sync.Cond
	waiters []*waiter
}

//go:norace
func NewCond(l Locker) *Cond { return &Cond{L: l, real: sync.NewCond(l)} }

//go:norace
func (c *Cond) Wait() {
	if !vsched.Active {
		c.real.Wait()
		return
	}
	if vsched.Poisoned() {
		return
	}
	m, ok := c.L.(*Mutex)
	if !ok {
		panic("INFRA: vsync.Cond over a foreign Locker")
	}
	w := &waiter{t: vsched.Cur()}
	c.waiters = append(c.waiters, w)
	if !m.Held {
		panic("sync: unlock of unlocked mutex")
	}
	m.Held = false
	m.Owner = nil
	m.real.Unlock()
	vsched.Block("cond", c, condReady{w, m}.ok)
	m.acquire()
}

//go:norace
func (c *Cond) Signal() {
	if !vsched.Active {
		c.real.Signal()
		return
	}
	if vsched.Poisoned() {
		return
	}
	for i, w := range c.waiters {
		if w.t.Done || w.t.Poisoned {
			continue
		}
		w.signaled = true
		c.waiters = append(c.waiters[:i:i], c.waiters[i+1:]...)
		break
	}
	vsched.Yield(vsched.PSignal)
}

//go:norace
func (c *Cond) Broadcast() {
	if !vsched.Active {
		c.real.Broadcast()
		return
	}
	if vsched.Poisoned() {
		return
	}
	for _, w := range c.waiters {
		w.signaled = true
	}
	c.waiters = nil
	vsched.Yield(vsched.PSignal)
}

// NumWaiters is used by the state dump.
//go:norace
func (c *Cond) NumWaiters() int { return len(c.waiters) }

type WaitGroup struct {
	real sync.WaitGroup
	n    int
}

//go:norace
func (w *WaitGroup) Add(d int) {
	if !vsched.Active {
		w.real.Add(d)
		return
	}
	if vsched.Poisoned() {
		return
	}
	w.n += d
	if w.n < 0 {
		panic("sync: negative WaitGroup counter")
	}
	w.real.Add(d)
}

//go:norace
func (w *WaitGroup) Done() { w.Add(-1) }

//go:norace
func (w *WaitGroup) Wait() {
	if !vsched.Active {
		w.real.Wait()
		return
	}
	if vsched.Poisoned() {
		return
	}
	if w.n > 0 {
		vsched.Block("waitgroup", w, wgZero{w}.ok)
	}
	w.real.Wait()
}

// Counter is used by the state dump.
//go:norace
func (w *WaitGroup) Counter() int { return w.n }

type RWMutex = sync.RWMutex
type Once = sync.Once
type Map = sync.Map
type Pool = sync.Pool


// Readiness predicates are named norace methods (a closure would be
// instrumented by the race detector and report the scheduler's own state).
type mutexFree struct{ m *Mutex }

//go:norace
func (r mutexFree) ok() bool { return !r.m.Held }

type condReady struct {
	w *waiter
	m *Mutex
}

//go:norace
func (r condReady) ok() bool { return r.w.signaled && !r.m.Held }

type wgZero struct{ w *WaitGroup }

//go:norace
func (r wgZero) ok() bool { return r.w.n == 0 }
