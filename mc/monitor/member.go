package monitor

import (
	"bytes"
	"fmt"

	"github.com/jmsadair/raft"
	"verif/mc/common"
	"verif/mc/sim"
)

// C09: quorums are made of voters of the configuration in force; membership
// futures tell the truth.
type Member struct {
	TV       *TermVote
	leading  map[int]uint64
	commit   map[int]uint64
	prevConf map[int]*raft.Configuration            // configuration each node had at the previous quiescent point
	confLog  map[int]map[uint64]*raft.Configuration // mirror of the configuration entries of every log
	pending  *common.Violation
	doneOps  map[int]bool
	Changes  int
}

func (m *Member) Attach(c *sim.Cluster) {
	m.leading = map[int]uint64{}
	m.commit = map[int]uint64{}
	m.doneOps = map[int]bool{}
	m.prevConf = map[int]*raft.Configuration{}
	m.confLog = map[int]map[uint64]*raft.Configuration{}
	m.pending = nil
	// Membership grows and shrinks by one server at a time: every configuration
	// entry appended to a log may differ from the configuration entry preceding
	// it in that log by at most one server (added, removed, or promoted).
	c.LogObservers = append(c.LogObservers, func(node int, op string, index uint64, entries []*raft.LogEntry) {
		if m.confLog[node] == nil {
			m.confLog[node] = map[uint64]*raft.Configuration{}
		}
		cl := m.confLog[node]
		switch op {
		case "truncate":
			for idx := range cl {
				if idx >= index {
					delete(cl, idx)
				}
			}
		case "append":
			for _, e := range entries {
				if e.EntryType != raft.ConfigurationEntry {
					delete(cl, e.Index)
					continue
				}
				cf, err := raft.VerifDecodeConfiguration(e.Data)
				if err != nil {
					continue
				}
				var prev *raft.Configuration
				var at uint64
				for idx, p := range cl {
					if idx < e.Index && idx >= at {
						at, prev = idx, p
					}
				}
				cl[e.Index] = &cf
				if prev == nil || m.pending != nil {
					continue
				}
				diff := 0
				for id := range cf.Members {
					if _, ok := prev.Members[id]; !ok {
						diff++
					} else if cf.IsVoter[id] != prev.IsVoter[id] {
						diff++
					}
				}
				for id := range prev.Members {
					if _, ok := cf.Members[id]; !ok {
						diff++
					}
				}
				if diff > 1 {
					m.pending = viol("C09", "configuration-changes-by-more-than-one-server", "n%d appended %s after %s: %d servers differ", node, sim.CanonConfiguration(&cf), sim.CanonConfiguration(prev), diff)
				}
			}
		}
	})
}

func (m *Member) Mem(b *bytes.Buffer) {}

func (m *Member) Step(c *sim.Cluster) *common.Violation {
	if p := m.pending; p != nil {
		m.pending = nil
		return p
	}
	for i, n := range c.Nodes {
		v, ok := c.View(i)
		if !ok || v.MuHeld {
			continue
		}
		if v.State != raft.Leader || !v.HasConfiguration {
			delete(m.leading, i)
			m.commit[i] = v.CommitIndex
			if v.HasConfiguration {
				cp := v.Configuration.Clone()
				m.prevConf[i] = &cp
			}
			continue
		}
		conf := v.Configuration
		// A commit decision is taken under the configuration in force when it
		// was taken; applying the newly committed entry may switch the
		// configuration inside the same step, so the commit check uses the
		// configuration of the previous quiescent point.
		commitConf := conf
		if p := m.prevConf[i]; p != nil {
			commitConf = p
		}
		cp := conf.Clone()
		m.prevConf[i] = &cp
		voters := 0
		for _, isV := range conf.IsVoter {
			if isV {
				voters++
			}
		}
		if t, ok := m.leading[i]; !ok || t != v.Term {
			m.leading[i] = v.Term
			// who voted for it in this term
			got, nonVoterGrants := 0, 0
			if conf.IsVoter[n.ID] {
				got++
			}
			for j, o := range c.Nodes {
				if j == i {
					continue
				}
				if m.TV.GrantedTo(j, v.Term) == n.ID {
					if conf.IsVoter[o.ID] {
						got++
					} else {
						nonVoterGrants++
					}
				}
			}
			if got*2 <= voters {
				sig := "elected-without-voter-majority"
				if (got+nonVoterGrants)*2 > voters {
					sig = "elected-with-non-voter-votes"
				}
				return viol("C09", sig, "n%d leads term %d under %s with votes of %d of its %d voters (%d grants from non-voters)", i, v.Term, sim.CanonConfiguration(conf), got, voters, nonVoterGrants)
			}
		}
		if v.CommitIndex > m.commit[i] {
			idx := v.CommitIndex
			if e, ok := logEntry(n, idx); ok {
				have, nonVoterHave := 0, 0
				conf := commitConf
				voters := 0
				for _, isV := range conf.IsVoter {
					if isV {
						voters++
					}
				}
				for _, o := range c.Nodes {
					if e2, ok := logEntry(o, idx); ok && e2.Term == e.Term {
						if conf.IsVoter[o.ID] {
							have++
						} else {
							nonVoterHave++
						}
					}
				}
				if have*2 <= voters {
					sig := "committed-without-voter-majority"
					if (have+nonVoterHave)*2 > voters {
						sig = "committed-with-non-voter-copies"
					}
					return viol("C09", sig, "leader n%d (term %d, %s) advanced its commit index to %d held by %d of %d voters (%d non-voter copies)", i, v.Term, sim.CanonConfiguration(conf), idx, have, voters, nonVoterHave)
				}
			}
		}
		m.commit[i] = v.CommitIndex
	}
	// membership futures
	for _, op := range c.Ops {
		if op.CfFut == nil || !op.Resolved || op.Err != nil || m.doneOps[op.ID] {
			continue
		}
		m.doneOps[op.ID] = true
		m.Changes++
		id := op.TargetID
		if id == "" && op.Target >= 0 && op.Target < len(c.Nodes) {
			id = c.Nodes[op.Target].ID
		}
		_, member := op.Conf.Members[id]
		switch op.Kind {
		case "add":
			if !member || op.Conf.IsVoter[id] != op.Voter {
				return viol("C09", "membership-future-wrong-configuration", "add %s (voter=%t) resolved with %s", id, op.Voter, sim.CanonConfiguration(&op.Conf))
			}
		case "remove":
			if member {
				return viol("C09", "membership-future-wrong-configuration", "remove %s resolved with %s", id, sim.CanonConfiguration(&op.Conf))
			}
		}
		// committed: its index is covered by some node's commit index
		committed := false
		for j := range c.Nodes {
			if v, ok := c.View(j); ok && v.CommitIndex >= op.Conf.Index {
				committed = true
			}
		}
		if !committed && op.Conf.Index > 0 {
			return viol("C09", "membership-future-uncommitted-configuration", "%s %s resolved with configuration @%d which no node has committed", op.Kind, id, op.Conf.Index)
		}
	}
	return nil
}

var _ = fmt.Sprint
