package monitor

import (
	"bytes"
	"fmt"
	"sort"
	"strings"

	"github.com/jmsadair/raft"
	"verif/mc/common"
	"verif/mc/sim"
)

// ---------------------------------------------------------------------------
// C04: at the moment an operation is acknowledged or first applied anywhere,
// its entry is in the persistent logs of a majority of the voters.

type Durable struct {
	A       *Apply
	checked map[uint64]bool // indices already checked at first apply
	ackSeen map[int]bool
	Checks  int
}

func (m *Durable) Attach(c *sim.Cluster) {
	m.checked = map[uint64]bool{}
	m.ackSeen = map[int]bool{}
}

func (m *Durable) Mem(b *bytes.Buffer) {}

func holders(c *sim.Cluster, idx, term uint64, data string) (int, int) {
	voters, have := 0, 0
	for i, n := range c.Nodes {
		if i >= c.Cfg.Voters {
			continue
		}
		voters++
		if e, ok := logEntry(n, idx); ok && e.Term == term && string(e.Data) == data && e.EntryType == raft.OperationEntry {
			have++
			continue
		}
		// compacted away: the entry is durable if a closed snapshot holds it
		if len(n.Log.Entries) > 0 && idx <= n.Log.Entries[0].Index {
			for _, sn := range n.Sn.Snaps {
				if list, err := sim.DecodeList(sn.Data); err == nil {
					for _, a := range list {
						if a.Index == idx && a.Term == term && a.Data == data {
							have++
							break
						}
					}
				}
			}
		}
	}
	return have, voters
}

func (m *Durable) Step(c *sim.Cluster) *common.Violation {
	for _, op := range c.Ops {
		if op.Kind != "write" || !op.Resolved || op.Err != nil || m.ackSeen[op.ID] {
			continue
		}
		m.ackSeen[op.ID] = true
		m.Checks++
		o := op.Resp.Operation
		have, voters := holders(c, o.LogIndex, o.LogTerm, op.Data)
		if have*2 <= voters {
			return viol("C04", "ack-without-majority", "write %q acknowledged at index %d term %d while only %d of %d voters hold it on disk", op.Data, o.LogIndex, o.LogTerm, have, voters)
		}
	}
	for _, idx := range m.A.Indices() {
		if m.checked[idx] {
			continue
		}
		m.checked[idx] = true
		m.Checks++
		term, data, _ := m.A.First(idx)
		have, voters := holders(c, idx, term, data)
		if have*2 <= voters {
			return viol("C04", "apply-without-majority", "index %d (term %d, %q) applied while only %d of %d voters hold it on disk", idx, term, data, have, voters)
		}
	}
	// "From then on it is never lost": nodes never delete a committed entry, so
	// a majority of the voters keeps holding every acknowledged or applied
	// operation (in its log or in a closed snapshot) in every later state.
	for _, op := range c.Ops {
		if op.Kind != "write" || !m.ackSeen[op.ID] {
			continue
		}
		o := op.Resp.Operation
		if have, voters := holders(c, o.LogIndex, o.LogTerm, op.Data); have*2 <= voters {
			return viol("C04", "acknowledged-entry-left-the-majority", "write %q (index %d term %d) was acknowledged, now only %d of %d voters hold it on disk", op.Data, o.LogIndex, o.LogTerm, have, voters)
		}
	}
	for _, idx := range m.A.Indices() {
		term, data, _ := m.A.First(idx)
		if have, voters := holders(c, idx, term, data); have*2 <= voters {
			return viol("C04", "applied-entry-left-the-majority", "index %d (term %d, %q) was applied, now only %d of %d voters hold it on disk", idx, term, data, have, voters)
		}
	}
	return nil
}

// ---------------------------------------------------------------------------
// C03: replicated operations are linearizable and futures tell the truth.

type Linear struct {
	A    *Apply
	done map[int]bool
	Acks int
}

func (m *Linear) Attach(c *sim.Cluster) { m.done = map[int]bool{} }
func (m *Linear) Mem(b *bytes.Buffer)   {}

// histPos returns the position of a marker in the history, -1 if absent.
func histPos(h []string, marker string) int {
	for i, s := range h {
		if s == marker || (strings.HasSuffix(marker, "*") && strings.HasPrefix(s, marker[:len(marker)-1])) {
			return i
		}
	}
	return -1
}

func (m *Linear) Step(c *sim.Cluster) *common.Violation {
	// position of every write's bytes in the authoritative applied order
	pos := map[string]uint64{}
	rank := map[uint64]int{}
	for r, idx := range m.A.Indices() {
		_, data, _ := m.A.First(idx)
		if prev, dup := pos[data]; dup {
			return viol("C03", "applied-twice", "operation %q applied at index %d and at index %d", data, prev, idx)
		}
		pos[data] = idx
		rank[idx] = r + 1
	}
	for _, op := range c.Ops {
		if op.Kind != "write" {
			continue
		}
		if op.Resolved && op.Err == nil && !m.done[op.ID] {
			m.done[op.ID] = true
			m.Acks++
			o := op.Resp.Operation
			if string(o.Bytes) != op.Data {
				return viol("C03", "future-wrong-bytes", "write %q acknowledged with bytes %q", op.Data, o.Bytes)
			}
			term, data, ok := m.A.First(o.LogIndex)
			if !ok || data != op.Data || term != o.LogTerm {
				return viol("C03", "future-wrong-position", "write %q acknowledged at (index %d, term %d) but that position applied (%d, %q, applied=%t)", op.Data, o.LogIndex, o.LogTerm, term, data, ok)
			}
			res, isRes := op.Resp.ApplicationResponse.(sim.ApplyResult)
			if !isRes || res.Last != op.Data || res.Len != rank[o.LogIndex] {
				return viol("C03", "future-wrong-result", "write %q acknowledged with state machine result %+v, expected {Len:%d Last:%s}", op.Data, op.Resp.ApplicationResponse, rank[o.LogIndex], op.Data)
			}
		}
	}
	// real-time order: A acknowledged before B invoked => A before B.
	for _, a := range c.Ops {
		if a.Kind != "write" || !a.Resolved || a.Err != nil {
			continue
		}
		ra := histPos(c.Hist, fmt.Sprintf("r%d+", a.ID))
		pa, okA := pos[a.Data]
		for _, b := range c.Ops {
			if b.Kind != "write" || b.ID == a.ID {
				continue
			}
			ib := histPos(c.Hist, fmt.Sprintf("i%d", b.ID))
			if ra < 0 || ib < 0 || ra > ib {
				continue
			}
			if pb, okB := pos[b.Data]; okB && okA && pb < pa {
				return viol("C03", "real-time-order", "write %q was acknowledged before %q was invoked but is applied after it (%d > %d)", a.Data, b.Data, pa, pb)
			}
		}
	}
	return nil
}

// ---------------------------------------------------------------------------
// C05 / C17: reads are never stale. A successful read returns the length of the
// applied list it saw; it must cover every write acknowledged before the read
// was invoked, and reads that do not overlap never go backwards.

type Reads struct {
	A      *Apply
	Kind   string // "read" (C05) or "lease" (C17)
	Prop   string
	done   map[int]bool
	Served int
	// classification of a stale read (root-cause discriminators, DESIGN 2.7)
	invokedAt map[int]int     // read id -> send clock at invocation
	replies   map[int][]aeAck // read id -> AppendEntries replies its node received while it was pending
}

type aeAck struct {
	from  int
	order int // send clock of the request
	seq   int // position in the reply sequence
}

func (m *Reads) Attach(c *sim.Cluster) {
	m.done = map[int]bool{}
	m.invokedAt = map[int]int{}
	m.replies = map[int][]aeAck{}
	prev := c.Net.OnReply
	c.Net.OnReply = func(msg *sim.Msg) {
		if prev != nil {
			prev(msg)
		}
		if msg.Kind == "AE" && msg.Err == nil {
			// only replies that arrive while a read is pending can confirm it
			for _, op := range c.Ops {
				if op.Kind == m.Kind && op.Node == msg.From && !op.Resolved && !op.Gone {
					m.replies[op.ID] = append(m.replies[op.ID], aeAck{from: msg.To, order: msg.Order})
				}
			}
		}
	}
}

// classify explains which acknowledgements can have confirmed a stale read:
// only a quorum of voters answering requests that were sent after the read was
// invoked proves that the node was still leader when the read arrived.
func (m *Reads) classify(c *sim.Cluster, rd *sim.ClientOp) string {
	inv, ok := m.invokedAt[rd.ID]
	if !ok {
		return "unclassified"
	}
	v, _ := c.View(rd.Node)
	fresh, freshNonVoter, old := map[int]bool{}, map[int]bool{}, 0
	voters := 0
	isVoter := func(i int) bool {
		if v.HasConfiguration {
			return v.Configuration.IsVoter[c.Nodes[i].ID]
		}
		return i < c.Cfg.Voters
	}
	for i := range c.Nodes {
		if isVoter(i) {
			voters++
		}
	}
	for _, a := range m.replies[rd.ID] {
		switch {
		case a.order < inv:
			old++
		case isVoter(a.from):
			fresh[a.from] = true
		default:
			freshNonVoter[a.from] = true
		}
	}
	switch {
	case (len(fresh)+1)*2 > voters:
		return "despite-fresh-voter-quorum"
	case (len(fresh)+len(freshNonVoter)+1)*2 > voters:
		return "confirmed-by-non-voters"
	case old > 0:
		return "confirmed-by-round-started-before-read"
	}
	return "no-confirmation"
}
func (m *Reads) Mem(b *bytes.Buffer) {
	// the classifier's memory for reads still pending
	for id, inv := range m.invokedAt {
		if m.done[id] {
			continue
		}
		var acks []string
		for _, a := range m.replies[id] {
			acks = append(acks, fmt.Sprintf("%d:%t", a.from, a.order >= inv))
		}
		sort.Strings(acks)
		fmt.Fprintf(b, "READ%s %d %v\n", m.Kind, id, acks)
	}
}

func (m *Reads) Step(c *sim.Cluster) *common.Violation {
	for _, rd := range c.Ops {
		if rd.Kind == m.Kind {
			if _, ok := m.invokedAt[rd.ID]; !ok {
				// ops are polled at the quiescent point right after their
				// submission: requests sent by the submission itself count as
				// sent after the invocation
				m.invokedAt[rd.ID] = rd.SendClock
			}
		}
		if rd.Kind != m.Kind || !rd.Resolved || rd.Err != nil || m.done[rd.ID] {
			continue
		}
		m.done[rd.ID] = true
		m.Served++
		res, ok := rd.Resp.ApplicationResponse.(sim.ApplyResult)
		if !ok {
			return viol(m.Prop, "read-bad-result", "read %d returned %+v", rd.ID, rd.Resp.ApplicationResponse)
		}
		inv := histPos(c.Hist, fmt.Sprintf("i%d", rd.ID))
		// rank of the latest write acknowledged before the read was invoked
		need := 0
		needOp := ""
		rank := map[uint64]int{}
		for r, idx := range m.A.Indices() {
			rank[idx] = r + 1
		}
		for _, w := range c.Ops {
			if w.Kind != "write" || !w.Resolved || w.Err != nil {
				continue
			}
			if rw := histPos(c.Hist, fmt.Sprintf("r%d+", w.ID)); rw >= 0 && rw < inv {
				if r := rank[w.Resp.Operation.LogIndex]; r > need {
					need, needOp = r, w.Data
				}
			}
		}
		if res.Len < need {
			return viol(m.Prop, "stale-read:"+m.classify(c, rd), "%s read on n%d saw %d applied operations although write %q (position %d) was acknowledged before the read was invoked", m.Kind, rd.Node, res.Len, needOp, need)
		}
		for _, prev := range c.Ops {
			if prev.ID == rd.ID || (prev.Kind != "read" && prev.Kind != "lease") || !prev.Resolved || prev.Err != nil {
				continue
			}
			if rp := histPos(c.Hist, fmt.Sprintf("r%d+", prev.ID)); rp >= 0 && rp < inv {
				if pr, ok := prev.Resp.ApplicationResponse.(sim.ApplyResult); ok && pr.Len > res.Len {
					return viol(m.Prop, "read-went-backwards", "read %d saw %d operations after read %d had already seen %d", rd.ID, res.Len, prev.ID, pr.Len)
				}
			}
		}
	}
	return nil
}
