package monitor

import (
	"fmt"

	"github.com/jmsadair/raft"
	"verif/mc/common"
	"verif/mc/sim"
)

// Continuation is C15's oracle: bounded liveness made safety. From the given
// state the environment stops injecting faults: partitions heal, every message
// is delivered within the interval it was sent in, election timeouts are
// staggered per node, time advances in heartbeat intervals. After a settling
// period a fresh operation is submitted to whoever leads (and resubmitted on a
// leader change). At the horizon there must be exactly one leader, the fresh
// operation must be acknowledged and every running member must have the same
// applied sequence as the leader.
func Continuation(horizon int) func(c *sim.Cluster) *common.Violation {
	return func(c *sim.Cluster) *common.Violation {
		// premise: a majority of the voters of the newest committed configuration is running
		alive := 0
		for _, n := range c.Nodes {
			if n.Alive {
				alive++
			}
		}
		var conf *raft.Configuration
		for i := range c.Nodes {
			if v, ok := c.View(i); ok && v.HasConfiguration && (conf == nil || v.Configuration.Index > conf.Index) {
				conf = v.Configuration
			}
		}
		if conf == nil {
			return nil
		}
		voters, votersUp := 0, 0
		for i, n := range c.Nodes {
			_ = i
			if conf.IsVoter[n.ID] {
				voters++
				if n.Alive {
					votersUp++
				}
			}
		}
		if votersUp*2 <= voters {
			return nil
		}
		c.B = sim.Budget{Reorders: -1, Deviations: -1}
		c.Stagger = true
		// no further faults: a crash that was armed but has not fired yet is called off
		for k := range c.Armed {
			delete(c.Armed, k)
		}
		if err := c.Apply(sim.Event{K: "heal"}); err != nil {
			return nil
		}
		var fresh *sim.ClientOp
		freshNode := -1
		for t := 0; t < horizon; t++ {
			if err := c.Apply(sim.Event{K: "adv"}); err != nil {
				return viol("C15", "infra", "%v", err)
			}
			if len(c.Problems) > 0 {
				p := c.Problems[0]
				c.Problems = nil
				return viol("C15", "panic-or-livelock-in-continuation", "%s", p)
			}
			for _, n := range c.Nodes {
				if n.Fatal != "" {
					return viol("C15", "fatal-in-continuation", "n%d: the library terminated the process during the fault-free period (%s)", n.Idx, n.Fatal)
				}
			}
			if t < horizon/5 {
				continue
			}
			// submit / resubmit the fresh operation at the current leader
			leader := -1
			var lt uint64
			for i := range c.Nodes {
				if v, ok := c.View(i); ok && v.State == raft.Leader && v.Term >= lt {
					leader, lt = i, v.Term
				}
			}
			if leader < 0 {
				continue
			}
			if fresh == nil || (fresh.Resolved && fresh.Err != nil) || (!fresh.Resolved && freshNode != leader && !c.Nodes[freshNode].Alive) || (fresh.Gone) {
				c.B.Writes = 1
				if err := c.Apply(sim.Event{K: "write", N: leader}); err == nil {
					fresh = c.Ops[len(c.Ops)-1]
					freshNode = leader
				}
			} else if !fresh.Resolved && freshNode != leader {
				// the node it was submitted to is no longer the leader: the
				// future fails on step down; resubmission happens next round
				if v, ok := c.View(freshNode); ok && v.State != raft.Leader && !fresh.Resolved {
					c.B.Writes = 1
					if err := c.Apply(sim.Event{K: "write", N: leader}); err == nil {
						fresh = c.Ops[len(c.Ops)-1]
						freshNode = leader
					}
				}
			}
		}
		leaders := []int{}
		for i := range c.Nodes {
			if v, ok := c.View(i); ok && v.State == raft.Leader {
				leaders = append(leaders, i)
			}
		}
		if len(leaders) != 1 {
			sig := fmt.Sprintf("leaders-at-horizon:%d", len(leaders))
			detail := ""
			if len(leaders) == 0 {
				// root cause discriminator: a voter restarted over a log whose
				// newest configuration entry is the still uncommitted removal of
				// itself; it no longer campaigns, and the others need its vote
				var maxCommit uint64
				for i := range c.Nodes {
					if v, ok := c.View(i); ok && v.CommitIndex > maxCommit {
						maxCommit = v.CommitIndex
					}
				}
				for i, n := range c.Nodes {
					v, ok := c.View(i)
					if !ok || n.Inc == 0 || !v.HasConfiguration || v.Configuration.IsVoter[n.ID] || v.Configuration.Index <= maxCommit {
						continue
					}
					for j, o := range c.Nodes {
						if w, ok := c.View(j); ok && j != i && w.HasConfiguration && w.Configuration.IsVoter[n.ID] && w.Configuration.Index < v.Configuration.Index {
							sig += ":restarted-on-its-own-uncommitted-removal"
							detail = fmt.Sprintf("; n%d restarted with the uncommitted configuration @%d that removes it and does not campaign, n%d (configuration @%d) still needs its vote and is refused for its shorter log", i, v.Configuration.Index, o.Idx, w.Configuration.Index)
							break
						}
					}
					if detail != "" {
						break
					}
				}
			}
			return viol("C15", sig, "after %d fault-free intervals %d nodes are in leader state %v%s", horizon, len(leaders), leaders, detail)
		}
		L := leaders[0]
		if fresh == nil || !fresh.Resolved || fresh.Err != nil {
			return viol("C15", "no-progress", "the operation submitted during the fault-free period was not acknowledged within %d intervals (leader n%d)", horizon, L)
		}
		lv, _ := c.View(L)
		want := c.Nodes[L].Fsm.List
		for i, n := range c.Nodes {
			if !n.Alive || i == L {
				continue
			}
			if lv.HasCommitted {
				if _, member := lv.Committed.Members[n.ID]; !member {
					continue
				}
			}
			got := n.Fsm.List
			same := len(got) == len(want)
			for k := 0; same && k < len(got); k++ {
				same = got[k] == want[k]
			}
			if !same {
				sig := "member-not-caught-up"
				if len(n.Sn.Snaps) > 0 || len(c.Nodes[L].Sn.Snaps) > 0 {
					sig = "member-not-caught-up:snapshots-involved"
				}
				v, _ := c.View(i)
				return viol("C15", sig, "after %d fault-free intervals n%d has applied %d operations (commit %d, applied %d, log first %d last %d, snapshot label %d) while leader n%d has applied %d", horizon, i, len(got), v.CommitIndex, v.LastApplied, n.Log.Entries[0].Index, n.Log.Entries[len(n.Log.Entries)-1].Index, v.LastIncludedIndex, L, len(want))
			}
		}
		return nil
	}
}
