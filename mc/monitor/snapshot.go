package monitor

import (
	"bytes"
	"fmt"

	"github.com/jmsadair/raft"

	"verif/mc/common"
	"verif/mc/sim"
)

// C10: every snapshot that becomes visible in any node's snapshot storage
// holds exactly the applied operations up to its label; every state machine
// instance always holds a duplicate-free, gap-free prefix of the authoritative
// applied order.
type Snapshots struct {
	A       *Apply
	C       *Commit         // committed set (configuration entries)
	checked map[[2]int]bool // (node, ordinal) of snapshots already checked
	// configuration entries seen in each node's log, by index (-1: any node)
	confSeen map[int]map[uint64]string
	Seen     int
	Restores int
}

func (m *Snapshots) Attach(c *sim.Cluster) {
	m.checked = map[[2]int]bool{}
	m.confSeen = map[int]map[uint64]string{-1: {}}
	// exact mirror of the configuration entries of every log, maintained from
	// the log operations themselves (an entry that was truncated and replaced
	// inside one step must not be remembered)
	c.LogObservers = append(c.LogObservers, func(node int, op string, index uint64, entries []*raft.LogEntry) {
		if m.confSeen[node] == nil {
			m.confSeen[node] = map[uint64]string{}
		}
		switch op {
		case "append":
			for _, e := range entries {
				if e.EntryType == raft.ConfigurationEntry {
					cc := sim.CanonConf(e.Data)
					m.confSeen[node][e.Index] = cc
					m.confSeen[-1][e.Index] = cc
				} else {
					delete(m.confSeen[node], e.Index)
				}
			}
		case "truncate":
			for idx := range m.confSeen[node] {
				if idx >= index {
					delete(m.confSeen[node], idx)
				}
			}
		}
	})
}
func (m *Snapshots) Mem(b *bytes.Buffer) {}

func (m *Snapshots) Step(c *sim.Cluster) *common.Violation {
	for i, n := range c.Nodes {
		if m.confSeen[i] == nil {
			m.confSeen[i] = map[uint64]string{}
		}
		for k := range n.Log.Entries {
			e := &n.Log.Entries[k]
			if e.EntryType == raft.ConfigurationEntry {
				cc := sim.CanonConf(e.Data)
				m.confSeen[i][e.Index] = cc
				m.confSeen[-1][e.Index] = cc
			}
		}
	}
	// a snapshot received from a leader brings its configuration with it: the
	// receiving node's log never held that entry, but it is part of what the
	// node has committed from then on (a later local snapshot carries it)
	for i, n := range c.Nodes {
		for _, sn := range n.Sn.Snaps {
			if sn.Local || len(sn.Meta.Configuration) == 0 {
				continue
			}
			if cfg, err := raft.VerifDecodeConfiguration(sn.Meta.Configuration); err == nil {
				if _, ok := m.confSeen[i][cfg.Index]; !ok {
					m.confSeen[i][cfg.Index] = sim.CanonConf(sn.Meta.Configuration)
				}
			}
		}
	}
	auth := m.A.Indices()
	for i, n := range c.Nodes {
		for j, sn := range n.Sn.Snaps {
			k := [2]int{i, j}
			if m.checked[k] {
				continue
			}
			m.checked[k] = true
			m.Seen++
			list, err := sim.DecodeList(sn.Data)
			if err != nil {
				return viol("C10", "snapshot-undecodable", "snapshot %d of n%d (label %d) cannot be decoded: %v", j, i, sn.Meta.LastIncludedIndex, err)
			}
			label := sn.Meta.LastIncludedIndex
			// root-cause discriminator: the bytes are exactly those of a
			// snapshot that exists elsewhere under a different label (chunks of
			// two snapshots spliced into one file / label taken from another
			// request than the bytes)
			splice := ""
			local := sn.Local
			if !local {
				for _, o := range c.Nodes {
					for _, os := range o.Sn.Snaps {
						if os.Meta.LastIncludedIndex != label && bytes.Equal(os.Data, sn.Data) {
							splice = ":bytes-of-snapshot-with-other-label"
						}
					}
				}
			}
			var want []uint64
			for _, idx := range auth {
				if idx <= label {
					want = append(want, idx)
				}
			}
			for _, a := range list {
				if a.Index > label {
					return viol("C10", "snapshot-contains-later-operation"+splice, "snapshot of n%d labelled %d contains operation %q of index %d", i, label, a.Data, a.Index)
				}
			}
			if len(list) < len(want) {
				return viol("C10", "snapshot-misses-operation"+splice, "snapshot of n%d labelled %d holds %d operations, %d were applied up to that index", i, label, len(list), len(want))
			}
			for x, a := range list {
				if x >= len(want) {
					return viol("C10", "snapshot-extra-operation"+splice, "snapshot of n%d labelled %d holds %d operations, only %d were applied up to that index", i, label, len(list), len(want))
				}
				term, data, _ := m.A.First(want[x])
				if a.Index != want[x] || a.Term != term || a.Data != data {
					return viol("C10", "snapshot-wrong-content"+splice, "snapshot of n%d labelled %d position %d is (%d,%d,%q), applied order has (%d,%d,%q)", i, label, x, a.Index, a.Term, a.Data, want[x], term, data)
				}
			}
			{
				// the configuration committed at the label: the newest
				// configuration entry with index <= label that this node's log
				// held (everything up to the label is applied, hence committed);
				// for a snapshot received from elsewhere, the entries seen in any log
				want := ""
				var at uint64
				src := m.confSeen[i]
				if !local {
					// received: judge it by the log history of the node that took it
					src = nil
					for j, o := range c.Nodes {
						for _, os := range o.Sn.Snaps {
							if os.Local && os.Meta.LastIncludedIndex == label && os.Meta.LastIncludedTerm == sn.Meta.LastIncludedTerm {
								src = m.confSeen[j]
							}
						}
					}
				}
				for idx, ce := range src {
					if idx <= label && idx >= at {
						at, want = idx, ce
					}
				}
				got := sim.CanonConf(sn.Meta.Configuration)
				if want != "" && got != want {
					return viol("C10", "snapshot-wrong-configuration", "snapshot of n%d labelled %d carries %s, the configuration committed at that index is %s", i, label, got, want)
				}
			}
			if term, _, ok := m.A.First(label); ok && term != sn.Meta.LastIncludedTerm {
				return viol("C10", "snapshot-wrong-label-term", "snapshot of n%d labelled (%d, term %d) but index %d was applied with term %d", i, label, sn.Meta.LastIncludedTerm, label, term)
			}
		}
		if !n.Alive || n.Fsm == nil {
			continue
		}
		for x, a := range n.Fsm.List {
			if x >= len(auth) {
				return viol("C10", "state-machine-beyond-order", "n%d state machine holds %d operations, only %d distinct indices were ever applied", i, len(n.Fsm.List), len(auth))
			}
			term, data, _ := m.A.First(auth[x])
			if a.Index != auth[x] {
				sig := "state-machine-skipped-operation"
				if x > 0 && a.Index <= n.Fsm.List[x-1].Index {
					sig = "state-machine-applied-twice"
					// root cause discriminator: was the offending Apply issued
					// for an index that a Restore on the same instance had
					// already covered?
					var restored uint64
					seenRestore := false
					for _, f := range c.Fsm {
						if f.Node != i || f.Inst != n.Fsm.Inst {
							continue
						}
						if f.Kind == "restore" {
							seenRestore = true
							restored = 0
							if len(f.List) > 0 {
								restored = f.List[len(f.List)-1].Index
							}
						}
						if f.Kind == "apply" && seenRestore && f.Index <= restored {
							sig = "apply-of-index-covered-by-earlier-restore"
						}
					}
				}
				return viol("C10", sig, "n%d state machine position %d holds index %d (%q), the applied order has index %d there: %s", i, x, a.Index, a.Data, auth[x], fmtList(n.Fsm.List))
			}
			if a.Term != term || a.Data != data {
				return viol("C10", "state-machine-wrong-content", "n%d state machine position %d is (%d,%d,%q), applied order has (%d,%d,%q)", i, x, a.Index, a.Term, a.Data, auth[x], term, data)
			}
		}
	}
	return nil
}

func fmtList(l []sim.Applied) string {
	s := "["
	for _, a := range l {
		s += fmt.Sprintf("%d:%s ", a.Index, a.Data)
	}
	return s + "]"
}
