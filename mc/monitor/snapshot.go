package monitor

import (
	"bytes"
	"fmt"

	"verif/mc/common"
	"verif/mc/sim"
)

// C10: every snapshot that becomes visible in any node's snapshot storage
// holds exactly the applied operations up to its label; every state machine
// instance always holds a duplicate-free, gap-free prefix of the authoritative
// applied order.
type Snapshots struct {
	A       *Apply
	checked map[[2]int]bool // (node, ordinal) of snapshots already checked
	Seen    int
	Restores int
}

func (m *Snapshots) Attach(c *sim.Cluster) { m.checked = map[[2]int]bool{} }
func (m *Snapshots) Mem(b *bytes.Buffer)   {}

func (m *Snapshots) Step(c *sim.Cluster) *common.Violation {
	// make sure the authoritative map is current
	auth := m.A.Indices()
	for i, n := range c.Nodes {
		for j, sn := range n.Sn.Snaps {
			k := [2]int{i, j}
			if m.checked[k] {
				continue
			}
			m.checked[k] = true
			m.Seen++
			list, err := sim.DecodeList(sn.Data)
			if err != nil {
				return viol("C10", "snapshot-undecodable", "snapshot %d of n%d (label %d) cannot be decoded: %v", j, i, sn.Meta.LastIncludedIndex, err)
			}
			label := sn.Meta.LastIncludedIndex
			var want []uint64
			for _, idx := range auth {
				if idx <= label {
					want = append(want, idx)
				}
			}
			for _, a := range list {
				if a.Index > label {
					return viol("C10", "snapshot-contains-later-operation", "snapshot of n%d labelled %d contains operation %q of index %d", i, label, a.Data, a.Index)
				}
			}
			if len(list) < len(want) {
				return viol("C10", "snapshot-misses-operation", "snapshot of n%d labelled %d holds %d operations, %d were applied up to that index", i, label, len(list), len(want))
			}
			for x, a := range list {
				if x >= len(want) {
					return viol("C10", "snapshot-extra-operation", "snapshot of n%d labelled %d holds %d operations, only %d were applied up to that index", i, label, len(list), len(want))
				}
				term, data, _ := m.A.First(want[x])
				if a.Index != want[x] || a.Term != term || a.Data != data {
					return viol("C10", "snapshot-wrong-content", "snapshot of n%d labelled %d position %d is (%d,%d,%q), applied order has (%d,%d,%q)", i, label, x, a.Index, a.Term, a.Data, want[x], term, data)
				}
			}
			if term, _, ok := m.A.First(label); ok && term != sn.Meta.LastIncludedTerm {
				return viol("C10", "snapshot-wrong-label-term", "snapshot of n%d labelled (%d, term %d) but index %d was applied with term %d", i, label, sn.Meta.LastIncludedTerm, label, term)
			}
		}
		if !n.Alive || n.Fsm == nil {
			continue
		}
		for x, a := range n.Fsm.List {
			if x >= len(auth) {
				return viol("C10", "state-machine-beyond-order", "n%d state machine holds %d operations, only %d distinct indices were ever applied", i, len(n.Fsm.List), len(auth))
			}
			term, data, _ := m.A.First(auth[x])
			if a.Index != auth[x] {
				sig := "state-machine-skipped-operation"
				if x > 0 && a.Index <= n.Fsm.List[x-1].Index {
					sig = "state-machine-applied-twice"
					// root cause discriminator: was the offending Apply issued
					// for an index that a Restore on the same instance had
					// already covered?
					var restored uint64
					seenRestore := false
					for _, f := range c.Fsm {
						if f.Node != i || f.Inst != n.Fsm.Inst {
							continue
						}
						if f.Kind == "restore" {
							seenRestore = true
							restored = 0
							if len(f.List) > 0 {
								restored = f.List[len(f.List)-1].Index
							}
						}
						if f.Kind == "apply" && seenRestore && f.Index <= restored {
							sig = "apply-of-index-covered-by-earlier-restore"
						}
					}
				}
				return viol("C10", sig, "n%d state machine position %d holds index %d (%q), the applied order has index %d there: %s", i, x, a.Index, a.Data, auth[x], fmtList(n.Fsm.List))
			}
			if a.Term != term || a.Data != data {
				return viol("C10", "state-machine-wrong-content", "n%d state machine position %d is (%d,%d,%q), applied order has (%d,%d,%q)", i, x, a.Index, a.Term, a.Data, auth[x], term, data)
			}
		}
	}
	return nil
}

func fmtList(l []sim.Applied) string {
	s := "["
	for _, a := range l {
		s += fmt.Sprintf("%d:%s ", a.Index, a.Data)
	}
	return s + "]"
}
