// Package monitor holds the oracles. They observe only public surface: state
// machine calls, Status-level node state, futures, RPCs at the transport and
// storage contents. Each demands no more than its property states.
package monitor

import (
	"bytes"
	"fmt"
	"sort"

	"github.com/jmsadair/raft"
	"verif/mc/common"
	"verif/mc/sim"
)

type Monitor interface {
	// Attach resets the monitor for a new execution and installs hooks.
	Attach(c *sim.Cluster)
	// Step is called at every quiescent point (after boot and after every event).
	Step(c *sim.Cluster) *common.Violation
	// Mem writes the monitor's memory (part of the state key).
	Mem(b *bytes.Buffer)
}

func viol(p, sig, format string, a ...any) *common.Violation {
	return &common.Violation{Property: p, Signature: sig, Detail: fmt.Sprintf(format, a...)}
}

// ---------------------------------------------------------------------------
// C01: state machine safety.

type applied struct {
	term uint64
	data string
}

type Apply struct {
	seen    int
	first   map[uint64]applied
	lastIdx map[[2]int]uint64 // (node,inst) -> last applied index since restore
	Applies int
}

func (m *Apply) Attach(c *sim.Cluster) {
	m.seen = 0
	m.first = map[uint64]applied{}
	m.lastIdx = map[[2]int]uint64{}
}

func (m *Apply) Step(c *sim.Cluster) *common.Violation {
	for ; m.seen < len(c.Fsm); m.seen++ {
		f := c.Fsm[m.seen]
		k := [2]int{f.Node, f.Inst}
		switch f.Kind {
		case "restore":
			idx := uint64(0)
			if len(f.List) > 0 {
				idx = f.List[len(f.List)-1].Index
			}
			m.lastIdx[k] = idx
		case "apply":
			m.Applies++
			if prev, ok := m.first[f.Index]; ok {
				if prev.term != f.Term || prev.data != f.Data {
					return viol("C01", "apply-mismatch", "index %d applied as (term %d, %q) on n%d but earlier as (term %d, %q)", f.Index, f.Term, f.Data, f.Node, prev.term, prev.data)
				}
			} else {
				m.first[f.Index] = applied{f.Term, f.Data}
			}
			if last, ok := m.lastIdx[k]; ok && f.Index <= last {
				return viol("C01", "apply-order", "n%d instance %d applied index %d after index %d", f.Node, f.Inst, f.Index, last)
			}
			m.lastIdx[k] = f.Index
		}
	}
	for i, n := range c.Nodes {
		if v, ok := c.View(i); ok && !v.MuHeld {
			last := uint64(0)
			if len(n.Log.Entries) > 0 {
				last = n.Log.Entries[len(n.Log.Entries)-1].Index
			}
			// entries covered by the node's newest snapshot count as held
			for _, sn := range n.Sn.Snaps {
				if sn.Meta.LastIncludedIndex > last {
					last = sn.Meta.LastIncludedIndex
				}
			}
			if v.CommitIndex > last {
				return viol("C01", "commit-beyond-log", "n%d commit index %d exceeds last log index %d", i, v.CommitIndex, last)
			}
		}
	}
	return nil
}

func (m *Apply) Mem(b *bytes.Buffer) {
	idx := make([]uint64, 0, len(m.first))
	for i := range m.first {
		idx = append(idx, i)
	}
	sort.Slice(idx, func(i, j int) bool { return idx[i] < idx[j] })
	b.WriteString("APPLIED")
	for _, i := range idx {
		fmt.Fprintf(b, " %d/%d/%s", i, m.first[i].term, m.first[i].data)
	}
	b.WriteByte('\n')
}

// First exposes the authoritative applied map to other monitors.
func (m *Apply) First(idx uint64) (uint64, string, bool) {
	a, ok := m.first[idx]
	return a.term, a.data, ok
}

func (m *Apply) Indices() []uint64 {
	idx := make([]uint64, 0, len(m.first))
	for i := range m.first {
		idx = append(idx, i)
	}
	sort.Slice(idx, func(i, j int) bool { return idx[i] < idx[j] })
	return idx
}

// ---------------------------------------------------------------------------
// C02: election safety.

type Leader struct {
	byTerm  map[uint64]string
	conf    map[uint64]string // configuration the first leader of the term was in
	pending *common.Violation
	Elected int
}

func (m *Leader) Attach(c *sim.Cluster) {
	m.byTerm = map[uint64]string{}
	m.conf = map[uint64]string{}
	m.pending = nil
	prev := c.Net.OnSend
	c.Net.OnSend = func(msg *sim.Msg) {
		if prev != nil {
			prev(msg)
		}
		var term uint64
		var id string
		switch msg.Kind {
		case "AE":
			term, id = msg.AE.Term, msg.AE.LeaderID
		case "IS":
			term, id = msg.IS.Term, msg.IS.LeaderID
		default:
			return
		}
		m.note(term, id, "", fmt.Sprintf("request %s names leader %s", msg.ID, id))
	}
}

func (m *Leader) note(term uint64, id, conf, how string) {
	if prev, ok := m.byTerm[term]; ok {
		if prev != id && m.pending == nil {
			sig := "two-leaders"
			if conf != "" && m.conf[term] != "" && conf != m.conf[term] {
				sig = "two-leaders-different-configurations"
			}
			m.pending = viol("C02", sig, "term %d has leaders %s and %s (%s)", term, prev, id, how)
		}
		return
	}
	m.byTerm[term] = id
	m.conf[term] = conf
	m.Elected++
}

func (m *Leader) Step(c *sim.Cluster) *common.Violation {
	for i := range c.Nodes {
		if v, ok := c.View(i); ok && v.State == raft.Leader {
			conf := ""
			if v.HasConfiguration {
				conf = sim.CanonConfiguration(v.Configuration)
			}
			m.note(v.Term, v.ID, conf, fmt.Sprintf("n%d reports leader state", i))
		}
	}
	p := m.pending
	m.pending = nil
	return p
}

func (m *Leader) Mem(b *bytes.Buffer) {
	terms := make([]uint64, 0, len(m.byTerm))
	for t := range m.byTerm {
		terms = append(terms, t)
	}
	sort.Slice(terms, func(i, j int) bool { return terms[i] < terms[j] })
	b.WriteString("LEADERS")
	for _, t := range terms {
		fmt.Fprintf(b, " %d=%s", t, m.byTerm[t])
	}
	b.WriteByte('\n')
}

// ---------------------------------------------------------------------------
// C07: leader completeness (and the committed set other monitors use).

type Commit struct {
	committed  map[uint64]string // index -> canonical entry
	maxIdx     uint64
	commitTerm map[uint64]uint64       // index -> term of the node on which it was first seen committed
	leading    map[int]uint64          // node -> term it is currently seen leading
	held       map[int]map[uint64]bool // node -> committed indices it held while leading
	mirror     map[int]map[uint64]string
}

func (m *Commit) Attach(c *sim.Cluster) {
	m.committed = map[uint64]string{}
	m.maxIdx = 0
	m.leading = map[int]uint64{}
	m.held = map[int]map[uint64]bool{}
	m.commitTerm = map[uint64]uint64{}
	// mirror of what every log holds or held before compacting it itself: an
	// entry that is committed and compacted into a local snapshot within one
	// step is still learnt as committed
	m.mirror = map[int]map[uint64]string{}
	c.LogObservers = append(c.LogObservers, func(node int, op string, index uint64, entries []*raft.LogEntry) {
		if m.mirror[node] == nil {
			m.mirror[node] = map[uint64]string{}
		}
		switch op {
		case "append":
			for _, e := range entries {
				m.mirror[node][e.Index] = sim.CanonEntry(e)
			}
		case "truncate":
			for idx := range m.mirror[node] {
				if idx >= index {
					delete(m.mirror[node], idx)
				}
			}
		case "discard":
			m.mirror[node] = map[uint64]string{}
		}
	})
}

func logEntry(n *sim.Node, idx uint64) (*raft.LogEntry, bool) {
	es := n.Log.Entries
	if len(es) == 0 {
		return nil, false
	}
	first := es[0].Index
	if idx <= first || idx >= first+uint64(len(es)) {
		return nil, false
	}
	return &es[idx-first], true
}

func (m *Commit) Step(c *sim.Cluster) *common.Violation {
	for i, n := range c.Nodes {
		v, ok := c.View(i)
		if !ok || v.MuHeld {
			continue
		}
		for idx := v.CommitIndex; idx > 0; idx-- {
			var ce string
			if idx <= v.LastIncludedIndex {
				// covered by the node's snapshot: whatever the log file still holds
				// there is not read by the node; what the node compacted itself
				// after committing it is known from the mirror
				if _, physical := logEntry(n, idx); physical {
					break // an installation is in progress: the old log is still there
				}
				mc, ok := m.mirror[i][idx]
				if !ok {
					break
				}
				ce = mc
			} else {
				e, ok := logEntry(n, idx)
				if !ok {
					break
				}
				ce = sim.CanonEntry(e)
			}
			if prev, ok := m.committed[idx]; ok {
				if prev != ce {
					return viol("C07", "commit-divergence", "index %d committed as %s on n%d but earlier as %s", idx, ce, i, prev)
				}
				break // lower indices were checked when this one was recorded
			}
			m.committed[idx] = ce
			m.commitTerm[idx] = v.Term
			if idx > m.maxIdx {
				m.maxIdx = idx
			}
		}
	}
	// Leader completeness is about the moment a node starts leading (first
	// quiescent point at which it is seen as leader of a term): everything
	// committed by then must be in its log. While it stays leader of that term
	// it must not lose a committed entry it held. A deposed leader that does not
	// know yet is not required to hold entries committed later by its successor.
	for i, n := range c.Nodes {
		v, ok := c.View(i)
		if !ok || v.MuHeld {
			continue
		}
		if v.State != raft.Leader {
			delete(m.leading, i)
			delete(m.held, i)
			continue
		}
		es := n.Log.Entries
		if len(es) == 0 {
			continue
		}
		starting := false
		if t, ok := m.leading[i]; !ok || t != v.Term {
			starting = true
			m.leading[i] = v.Term
			m.held[i] = map[uint64]bool{}
		}
		held := m.held[i]
		for idx, ce := range m.committed {
			if idx <= es[0].Index {
				continue // compacted into a snapshot
			}
			e, ok := logEntry(n, idx)
			has := ok && sim.CanonEntry(e) == ce
			// Raft's leader completeness speaks about leaders of later terms:
			// a candidate of an older term whose granted votes arrive late
			// legitimately starts leading without entries committed meanwhile
			// by a newer-term leader (it can never commit anything itself).
			if starting && !has && m.commitTerm[idx] < v.Term {
				return viol("C07", "leader-missing-committed", "n%d started leading term %d without committed entry %s", i, v.Term, ce)
			}
			if held[idx] && !has {
				return viol("C07", "leader-overwrote-committed", "leader n%d of term %d no longer holds committed entry %s", i, v.Term, ce)
			}
			if has {
				held[idx] = true
			}
		}
	}
	return nil
}

func (m *Commit) Mem(b *bytes.Buffer) {
	idx := make([]uint64, 0, len(m.committed))
	for i := range m.committed {
		idx = append(idx, i)
	}
	sort.Slice(idx, func(i, j int) bool { return idx[i] < idx[j] })
	b.WriteString("COMMITTED")
	for _, i := range idx {
		fmt.Fprintf(b, " %s@%d", m.committed[i], m.commitTerm[i])
	}
	b.WriteByte('\n')
}

// ---------------------------------------------------------------------------
// C06 (cluster part): log matching between persistent logs.

type LogMatch struct{}

func (m *LogMatch) Attach(c *sim.Cluster) {}
func (m *LogMatch) Mem(b *bytes.Buffer)   {}

func (m *LogMatch) Step(c *sim.Cluster) *common.Violation {
	for i := 0; i < len(c.Nodes); i++ {
		for j := i + 1; j < len(c.Nodes); j++ {
			a, b := c.Nodes[i], c.Nodes[j]
			if len(a.Log.Entries) < 2 || len(b.Log.Entries) < 2 {
				continue
			}
			lo := a.Log.Entries[0].Index
			if b.Log.Entries[0].Index > lo {
				lo = b.Log.Entries[0].Index
			}
			hi := a.Log.Entries[len(a.Log.Entries)-1].Index
			if h := b.Log.Entries[len(b.Log.Entries)-1].Index; h < hi {
				hi = h
			}
			match := false
			for idx := hi; idx > lo; idx-- {
				ea, _ := logEntry(a, idx)
				eb, _ := logEntry(b, idx)
				if ea == nil || eb == nil {
					break
				}
				if !match {
					if ea.Term == eb.Term {
						match = true
					} else {
						continue
					}
				}
				if ea.Term != eb.Term || ea.EntryType != eb.EntryType || (string(ea.Data) != string(eb.Data) && sim.CanonEntry(ea) != sim.CanonEntry(eb)) {
					return viol("C06", "log-matching", "n%d and n%d agree on (index,term) above %d but differ at %d: %s vs %s", i, j, idx, idx, sim.CanonEntry(ea), sim.CanonEntry(eb))
				}
			}
		}
	}
	return nil
}

// ---------------------------------------------------------------------------
// C08 (cluster part): term monotone, one vote per term, grant => up to date,
// prevote inert.

type TermVote struct {
	maxTerm  map[int]uint64
	granted  map[[2]uint64]string // (node, term) -> candidate
	stBefore []sim.StateDisk
	pending  *common.Violation
	Grants   int
}

func (m *TermVote) Attach(c *sim.Cluster) {
	m.maxTerm = map[int]uint64{}
	m.granted = map[[2]uint64]string{}
	m.pending = nil
	m.stBefore = make([]sim.StateDisk, len(c.Nodes))
	prevD := c.Net.OnDeliver
	c.Net.OnDeliver = func(msg *sim.Msg) {
		if prevD != nil {
			prevD(msg)
		}
		// stored (term, vote) right before the handler runs (a macro event
		// delivers many messages between two quiescent points)
		m.stBefore[msg.To] = *c.Nodes[msg.To].St
	}
	prev := c.Net.OnResponse
	c.Net.OnResponse = func(msg *sim.Msg) {
		if prev != nil {
			prev(msg)
		}
		if msg.Err != nil {
			return
		}
		var term uint64
		switch msg.Kind {
		case "AE":
			term = msg.AEr.Term
		case "RV":
			term = msg.RVr.Term
		case "IS":
			term = msg.ISr.Term
		}
		m.term(msg.To, term, "reply to "+msg.ID)
		if msg.Kind != "RV" {
			return
		}
		n := c.Nodes[msg.To]
		if msg.RV.Prevote {
			before := m.stBefore[msg.To]
			if *n.St != before && m.pending == nil {
				m.pending = viol("C08", "prevote-changed-state", "prevote %s changed stored (term,vote) of n%d from (%d,%q) to (%d,%q)", msg.ID, msg.To, before.Term, before.Vote, n.St.Term, n.St.Vote)
			}
			return
		}
		if !msg.RVr.VoteGranted {
			return
		}
		m.Grants++
		k := [2]uint64{uint64(msg.To), msg.RV.Term}
		if prev, ok := m.granted[k]; ok && prev != msg.RV.CandidateID && m.pending == nil {
			m.pending = viol("C08", "double-vote", "n%d granted its term-%d vote to %s and to %s", msg.To, msg.RV.Term, prev, msg.RV.CandidateID)
		}
		m.granted[k] = msg.RV.CandidateID
		es := n.Log.Entries
		if len(es) > 0 {
			last := es[len(es)-1]
			if (msg.RV.LastLogTerm < last.Term || (msg.RV.LastLogTerm == last.Term && msg.RV.LastLogIndex < last.Index)) && m.pending == nil {
				m.pending = viol("C08", "vote-for-stale-log", "n%d (last %d/%d) granted a vote to %s (last %d/%d)", msg.To, last.Index, last.Term, msg.RV.CandidateID, msg.RV.LastLogIndex, msg.RV.LastLogTerm)
			}
		}
		if (!n.St.Valid || n.St.Term != msg.RV.Term || n.St.Vote != msg.RV.CandidateID) && m.pending == nil {
			m.pending = viol("C08", "vote-not-persisted", "n%d granted its term-%d vote to %s but storage holds (%d,%q)", msg.To, msg.RV.Term, msg.RV.CandidateID, n.St.Term, n.St.Vote)
		}
	}
}

// GrantedTo returns the candidate that node granted its real vote to in term.
func (m *TermVote) GrantedTo(node int, term uint64) string {
	return m.granted[[2]uint64{uint64(node), term}]
}

func (m *TermVote) term(node int, term uint64, how string) {
	if term < m.maxTerm[node] && m.pending == nil {
		m.pending = viol("C08", "term-decreased", "n%d showed term %d after term %d (%s)", node, term, m.maxTerm[node], how)
	}
	if term > m.maxTerm[node] {
		m.maxTerm[node] = term
	}
}

func (m *TermVote) Step(c *sim.Cluster) *common.Violation {
	for i, n := range c.Nodes {
		if v, ok := c.View(i); ok {
			m.term(i, v.Term, "status")
		}
		m.stBefore[i] = *n.St
		// a vote that was granted in the term the storage still holds must still be
		// in the storage: otherwise a crash now would let the node vote again
		if n.St.Valid && m.pending == nil {
			if cand, ok := m.granted[[2]uint64{uint64(i), n.St.Term}]; ok && n.St.Vote != cand {
				m.pending = viol("C08", "granted-vote-erased-from-storage", "n%d granted its term-%d vote to %s but its storage now holds (%d,%q)", i, n.St.Term, cand, n.St.Term, n.St.Vote)
			}
		}
	}
	p := m.pending
	m.pending = nil
	return p
}

func (m *TermVote) Mem(b *bytes.Buffer) {
	b.WriteString("TERMVOTE")
	for i := 0; i < len(m.stBefore); i++ {
		fmt.Fprintf(b, " %d", m.maxTerm[i])
	}
	keys := make([][2]uint64, 0, len(m.granted))
	for k := range m.granted {
		keys = append(keys, k)
	}
	sort.Slice(keys, func(i, j int) bool {
		if keys[i][0] != keys[j][0] {
			return keys[i][0] < keys[j][0]
		}
		return keys[i][1] < keys[j][1]
	})
	for _, k := range keys {
		fmt.Fprintf(b, " %d@%d=%s", k[0], k[1], m.granted[k])
	}
	b.WriteByte('\n')
}
