package monitor

import (
	"bytes"
	"fmt"

	"github.com/jmsadair/raft"
	"verif/mc/common"
	"verif/mc/sim"
)

// C16: while a leader stays in prompt contact with a majority, nothing the
// remaining nodes do makes it step down or raises the majority's term.
type Sticky struct {
	Leader   int
	Majority []int
	term     uint64
	armed    bool
}

func (m *Sticky) Attach(c *sim.Cluster) { m.armed = false }

func (m *Sticky) Mem(b *bytes.Buffer) { fmt.Fprintf(b, "STICKY %t %d\n", m.armed, m.term) }

// Arm fixes the leader's term: from now on the premise is enforced by the
// suite's alphabet (faults only on the minority) and the oracle is active.
func (m *Sticky) Step(c *sim.Cluster) *common.Violation {
	v, ok := c.View(m.Leader)
	if !ok {
		return nil
	}
	if !m.armed {
		// the oracle starts once the seed has produced a stable leader whose
		// no-op is committed on the majority
		if v.State != raft.Leader || v.CommitIndex < 2 {
			return nil
		}
		for _, j := range m.Majority {
			if w, ok := c.View(j); !ok || w.Term != v.Term || w.CommitIndex < 2 {
				return nil
			}
		}
		// no node may already carry a higher term (that would not be behaviour
		// during the period)
		for j := range c.Nodes {
			if w, ok := c.View(j); ok && w.Term > v.Term {
				return nil
			}
		}
		m.armed = true
		m.term = v.Term
		return nil
	}
	if v.State != raft.Leader {
		return viol("C16", "leader-deposed", "leader n%d of term %d left the leader state (now state %d, term %d) although it stayed in prompt contact with a majority", m.Leader, m.term, v.State, v.Term)
	}
	for _, j := range m.Majority {
		if w, ok := c.View(j); ok && w.Term > m.term {
			return viol("C16", "majority-term-increased", "n%d of the majority moved from term %d to term %d", j, m.term, w.Term)
		}
	}
	return nil
}
