// Package sched is the SCHED engine: it enumerates goroutine schedules of a
// fixed scenario on the real code. A scenario is a script of steps; each step
// injects one or more environment events at once and lets the system run to
// quiescence while the explorer decides, at every synchronisation point of
// the library (lock, unlock, condition wait and signal), which
// runnable goroutine continues. All schedules whose number of non-default
// decisions stays within the bound are executed (iterative context bounding:
// bound 0, 1, 2, ...).
package sched

import (
	"fmt"
	"os"
	"time"

	"github.com/jmsadair/raft/verifshim/vsched"
	"verif/mc/common"
	"verif/mc/monitor"
	"verif/mc/sim"
)

type Scenario struct {
	Name     string
	Cfg      sim.Config
	Prefix   []sim.Event   // canonical-schedule set-up (no exploration)
	Steps    [][]sim.Event // explored part: each step's events are injected together
	Monitors func() []monitor.Monitor
	// Final is evaluated after the last step (scenario specific oracle).
	Final func(c *sim.Cluster) *common.Violation
	// PreemptOnly: only switching away from a still-runnable goroutine costs
	// (CHESS); otherwise every non-default decision costs one unit.
	PreemptOnly bool
}

type point struct {
	n          int  // number of alternatives
	curEnabled bool // the previously running task could have continued
	chosen     int
}

type strategy struct {
	prefix   []int
	points   []point
	diverged string
}

func (s *strategy) Pick(en []*vsched.Task, cur *vsched.Task, curEnabled bool, pt int) *vsched.Task {
	// canonical order of alternatives: the running task first if still
	// enabled, then the others by canonical name
	opts := en
	if curEnabled {
		opts = make([]*vsched.Task, 0, len(en))
		opts = append(opts, cur)
		for _, t := range en {
			if t != cur {
				opts = append(opts, t)
			}
		}
	}
	if len(opts) == 1 {
		return opts[0]
	}
	i := len(s.points)
	c := 0
	if i < len(s.prefix) {
		c = s.prefix[i]
		if c >= len(opts) {
			s.diverged = fmt.Sprintf("decision %d: choice %d out of %d alternatives", i, c, len(opts))
			c = 0
		}
	}
	s.points = append(s.points, point{n: len(opts), curEnabled: curEnabled, chosen: c})
	return opts[c]
}

// RaceMode (C20, -race builds): the harness must not touch library memory
// outside the library's own synchronisation, so monitors, lock-free views and
// state keys are skipped; the only oracle is the race detector's report.
var RaceMode bool

// ScratchDir returns a fresh directory for one execution of a scenario that
// runs on the file-backed storages.
var ScratchDir func() string

// MaxExecutions (>0) caps the executions of one Explore call (one worker process).
var MaxExecutions int

// Debug, if set, sees the cluster at the end of every execution (dev aid).
var Debug func(c *sim.Cluster)

// AfterRun, if set, is called after every execution (race log inspection).
var AfterRun func(choices []int) []*common.Violation

// Outcome of one execution.
type Outcome struct {
	Violations []*common.Violation
	Points     []point
	Final      string // digest of the final state (distinct outcomes)
	Diverged   string
	Steps      int64
	Skipped    string // first step that was not applicable under this schedule
}

// Alternatives lists the number of alternatives at each decision point.
func (o *Outcome) Alternatives() []int {
	var a []int
	for _, p := range o.Points {
		a = append(a, p.n)
	}
	return a
}

// RunOnce executes the scenario under the schedule given by choices (default
// decision 0 after the prefix).
func RunOnce(sc *Scenario, choices []int) *Outcome {
	out := &Outcome{}
	cfg := sc.Cfg
	if cfg.FileStore {
		// the real file-backed storages, in a fresh directory per execution
		cfg.Dir = ScratchDir()
		defer os.RemoveAll(cfg.Dir)
	}
	c := sim.New(cfg, sim.Budget{Timeouts: 99, Elapses: 99, Beats: 99, Ticks: 99, Writes: 99, Reads: 99, LeaseReads: 99, Drops: 99, DropReplies: 99, Dups: 99, Crashes: 99, Arms: 99, Restarts: 99, Members: 99, Reorders: -1, Splits: 99, Cuts: 99, ClientTimeouts: 99, Deviations: -1})
	defer func() {
		c.Teardown()
		if cfg.FileStore {
			c.RemoveIntercept()
		}
	}()
	var mons []monitor.Monitor
	if sc.Monitors != nil && !RaceMode {
		mons = sc.Monitors()
	}
	for _, m := range mons {
		m.Attach(c)
	}
	check := func() bool {
		if len(c.Problems) > 0 {
			out.Violations = append(out.Violations, &common.Violation{Property: "C18", Signature: "panic-or-livelock", Detail: c.Problems[0]})
			c.Problems = nil
		}
		for _, m := range mons {
			if v := m.Step(c); v != nil {
				out.Violations = append(out.Violations, v)
			}
		}
		return len(out.Violations) == 0
	}
	for _, e := range sc.Prefix {
		if err := c.Apply(e); err != nil {
			panic(fmt.Sprintf("INFRA: scenario %s prefix %v: %v", sc.Name, e, err))
		}
		if !check() {
			return out
		}
	}
	st := &strategy{prefix: choices}
	vsched.SetStrategy(st)
	vsched.YieldPoints = true
	steps0 := vsched.Steps
	for _, step := range sc.Steps {
		if err := c.ApplyPar(step); err != nil {
			// an event that is not applicable under this schedule (e.g. the
			// message it names was never sent) ends the execution quietly
			out.Skipped = fmt.Sprint(err)
			break
		}
		if !check() {
			break
		}
	}
	vsched.YieldPoints = false
	vsched.SetStrategy(nil)
	out.Steps = vsched.Steps - steps0
	out.Points = st.points
	out.Diverged = st.diverged
	if len(out.Violations) == 0 && sc.Final != nil && !RaceMode {
		if v := sc.Final(c); v != nil {
			out.Violations = append(out.Violations, v)
		}
	}
	if Debug != nil {
		Debug(c)
	}
	if RaceMode {
		out.Final = fmt.Sprint(len(st.points))
		if AfterRun != nil {
			out.Violations = append(out.Violations, AfterRun(choices)...)
		}
		return out
	}
	k := c.Key(nil)
	out.Final = fmt.Sprintf("%x", k[:8])
	return out
}

// Result of exploring one scenario.
type Result struct {
	Scenario   string         `json:"scenario"`
	Bound      int            `json:"bound"`
	Executions int            `json:"executions"`
	Decisions  int64          `json:"decisions"`
	MaxPoints  int            `json:"max_decision_points"`
	Outcomes   map[string]int `json:"-"`
	Distinct   int            `json:"distinct_final_states"`
	Preempting int            `json:"executions_with_preemption"`
	Found      []*Found       `json:"found,omitempty"`
	Deadline   bool           `json:"deadline_hit"`
	Capped     bool           `json:"execution_cap_hit,omitempty"`
	Samples    [][]int        `json:"samples,omitempty"`
}

type Found struct {
	V       *common.Violation `json:"v"`
	Choices []int             `json:"choices"`
}

// Explore enumerates all schedules of the scenario with at most `bound`
// costly decisions. shard/nshards split the first-level alternatives.
func Explore(sc *Scenario, bound int, deadline time.Time, shard, nshards int) *Result {
	res := &Result{Scenario: sc.Name, Bound: bound, Outcomes: map[string]int{}}
	seenSig := map[string]bool{}
	var rec func(prefix []int, cost int, top bool)
	branch := 0
	rec = func(prefix []int, cost int, top bool) {
		if res.Deadline {
			return
		}
		if !deadline.IsZero() && time.Now().After(deadline) {
			res.Deadline = true
			return
		}
		if MaxExecutions > 0 && res.Executions >= MaxExecutions {
			// memory guard (race builds keep ~0.2 MB per execution): reported
			// like a deadline, i.e. the enumeration is not claimed exhaustive
			res.Deadline = true
			res.Capped = true
			return
		}
		o := RunOnce(sc, prefix)
		res.Executions++
		res.Decisions += int64(len(o.Points))
		if len(o.Points) > res.MaxPoints {
			res.MaxPoints = len(o.Points)
		}
		if o.Diverged != "" {
			panic(fmt.Sprintf("INFRA: schedule replay diverged in scenario %s: %s; prefix %v", sc.Name, o.Diverged, prefix))
		}
		res.Outcomes[o.Final]++
		if cost > 0 {
			res.Preempting++
		}
		if len(res.Samples) < 3 && cost == bound {
			res.Samples = append(res.Samples, append([]int(nil), prefix...))
		}
		for _, v := range o.Violations {
			k := v.Property + ":" + v.Signature
			if !seenSig[k] {
				seenSig[k] = true
				res.Found = append(res.Found, &Found{V: v, Choices: append([]int(nil), prefix...)})
			}
		}
		choices := make([]int, len(o.Points))
		for i, p := range o.Points {
			choices[i] = p.chosen
		}
		for i := len(prefix); i < len(o.Points); i++ {
			p := o.Points[i]
			for alt := 1; alt < p.n; alt++ {
				c := cost
				if !sc.PreemptOnly || p.curEnabled {
					c++
				}
				if c > bound {
					continue
				}
				if top {
					branch++
					if nshards > 1 && branch%nshards != shard {
						continue
					}
				}
				np := append(append([]int(nil), choices[:i]...), alt)
				rec(np, c, false)
			}
		}
	}
	if nshards > 1 && shard != 0 {
		// the root execution belongs to shard 0; other shards still need its
		// decision points to find their branches
		o := RunOnce(sc, nil)
		choices := make([]int, len(o.Points))
		for i, p := range o.Points {
			choices[i] = p.chosen
		}
		for i := 0; i < len(o.Points); i++ {
			p := o.Points[i]
			for alt := 1; alt < p.n; alt++ {
				c := 0
				if !sc.PreemptOnly || p.curEnabled {
					c++
				}
				if c > bound {
					continue
				}
				branch++
				if branch%nshards != shard {
					continue
				}
				rec(append(append([]int(nil), choices[:i]...), alt), c, false)
			}
		}
	} else {
		rec(nil, 0, true)
	}
	res.Distinct = len(res.Outcomes)
	return res
}
