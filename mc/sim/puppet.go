package sim

import (
	"fmt"
	"strings"

	"github.com/jmsadair/raft"
	"github.com/jmsadair/raft/verifshim/vtime"
)

// Puppet mode (HANDLER engine for C08): n0 is the only real node; n1 and n2
// are played by the harness, which can send n0 any request of a small domain
// (relative to n0's current term and log) and answer n0's own requests in any
// way.

// TermCap bounds the terms reachable in puppet exploration.
type PuppetCfg struct {
	TermCap uint64
}

var Puppet = PuppetCfg{TermCap: 5}

func (c *Cluster) lastLog(i int) (uint64, uint64) {
	es := c.Nodes[i].Log.Entries
	if len(es) == 0 {
		return 0, 0
	}
	return es[len(es)-1].Index, es[len(es)-1].Term
}

// puppetEnabled lists injections and answers.
func (c *Cluster) puppetEnabled() []Event {
	var ev []Event
	v, ok := c.View(0)
	if !ok {
		return nil
	}
	T := v.Term
	open := c.clockOpen(0)
	elapseVariants := func(e Event) {
		if !open && c.B.Elapses > 0 {
			e2 := e
			e2.A |= 2
			ev = append(ev, e2)
		}
		ev = append(ev, e)
	}
	// answers to n0's own requests
	for _, m := range c.Net.Msgs {
		if m.From != 0 || m.State != MSent || !c.Net.senderAlive(m) {
			continue
		}
		switch m.Kind {
		case "RV":
			ev = append(ev, Event{K: "ans", M: m.ID, S: "grant"}, Event{K: "ans", M: m.ID, S: "deny"})
			if m.RV.Term+1 <= Puppet.TermCap {
				ev = append(ev, Event{K: "ans", M: m.ID, S: "higher"})
			}
		case "AE", "IS":
			ev = append(ev, Event{K: "ans", M: m.ID, S: "ok"})
			if T+1 <= Puppet.TermCap {
				ev = append(ev, Event{K: "ans", M: m.ID, S: "higher"})
			}
		}
	}
	for _, from := range []int{1, 2} {
		for dt := -1; dt <= 1; dt++ {
			if int64(T)+int64(dt) < 0 || (dt > 0 && T+uint64(dt) > Puppet.TermCap) {
				continue
			}
			for _, lg := range []string{"older", "equal", "newer"} {
				for _, pre := range []string{"real", "pre"} {
					elapseVariants(Event{K: "inj", N: from, S: fmt.Sprintf("RV:%+d:%s:%s", dt, lg, pre)})
				}
			}
		}
		for dt := -1; dt <= 1; dt++ {
			if int64(T)+int64(dt) < 0 || (dt > 0 && T+uint64(dt) > Puppet.TermCap) {
				continue
			}
			for _, pv := range []string{"match", "mismatch"} {
				ev = append(ev, Event{K: "inj", N: from, S: fmt.Sprintf("AE:%+d:%s", dt, pv)})
			}
			ev = append(ev, Event{K: "inj", N: from, S: fmt.Sprintf("IS:%+d", dt)})
		}
	}
	return ev
}

func (c *Cluster) applyPuppet(e Event) error {
	switch e.K {
	case "ans":
		m := c.Net.find(e.M)
		if m == nil || m.State != MSent {
			return fmt.Errorf("ans: no such message %s", e.M)
		}
		switch m.Kind {
		case "RV":
			m.RVr = raft.RequestVoteResponse{Term: m.RV.Term, VoteGranted: e.S == "grant"}
			if m.RV.Prevote {
				m.RVr.Term = m.RV.Term - 1
			}
			if e.S == "higher" {
				m.RVr.Term = m.RV.Term + 1
			}
		case "AE":
			m.AEr = raft.AppendEntriesResponse{Term: m.AE.Term, Success: e.S == "ok"}
			if e.S == "higher" {
				m.AEr.Term = m.AE.Term + 1
			}
		case "IS":
			m.ISr = raft.InstallSnapshotResponse{Term: m.IS.Term}
			if e.S == "higher" {
				m.ISr.Term = m.IS.Term + 1
			}
		}
		m.State = MDone
		m.Replied = true
		c.Net.remove(m)
		return nil
	case "inj":
		v, ok := c.View(0)
		if !ok {
			return fmt.Errorf("inj: n0 is down")
		}
		if e.A&2 == 2 {
			c.B.Elapses--
			vtime.Advance(0, 2*ET)
		}
		f := strings.Split(e.S, ":")
		var dt int
		fmt.Sscan(f[1], &dt)
		term := uint64(int64(v.Term) + int64(dt))
		li, lt := c.lastLog(0)
		from := c.Nodes[e.N]
		switch f[0] {
		case "RV":
			r := raft.RequestVoteRequest{CandidateID: from.ID, Term: term, LastLogIndex: li, LastLogTerm: lt, Prevote: f[3] == "pre"}
			switch f[2] {
			case "older":
				if li > 0 {
					r.LastLogIndex = li - 1
				}
			case "newer":
				r.LastLogIndex = li + 1
			}
			c.Inject(e.N, "RV", func(m *Msg) { m.RV = r })
		case "AE":
			r := raft.AppendEntriesRequest{LeaderID: from.ID, Term: term, PrevLogIndex: li, PrevLogTerm: lt}
			if f[2] == "mismatch" {
				r.PrevLogIndex = li + 1
			}
			c.Inject(e.N, "AE", func(m *Msg) { m.AE = r })
		case "IS":
			r := raft.InstallSnapshotRequest{LeaderID: from.ID, Term: term, LastIncludedIndex: 0, Done: true}
			c.Inject(e.N, "IS", func(m *Msg) { m.IS = r })
		}
		return nil
	}
	return fmt.Errorf("unknown puppet event %q", e.K)
}
