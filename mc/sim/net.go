package sim

import (
	"errors"
	"fmt"
	"sync"

	"github.com/jmsadair/raft"
	"github.com/jmsadair/raft/verifshim/vsched"
)

// Message states.
const (
	MSent     = iota // request in the network
	MHandling        // handler running / blocked on the target
	MHandled         // response produced, not yet delivered
	MDone            // finished (reply delivered, dropped, or failed)
)

type Msg struct {
	ID        string
	From, To  int
	FromInc   int
	Kind      string // AE | RV | IS
	State     int
	AE        raft.AppendEntriesRequest
	RV        raft.RequestVoteRequest
	IS        raft.InstallSnapshotRequest
	ReqWire   []byte
	AEr       raft.AppendEntriesResponse
	RVr       raft.RequestVoteResponse
	ISr       raft.InstallSnapshotResponse
	RespWire  []byte
	Err       error // error for the sender
	Replied   bool  // sender may proceed
	Order     int   // global send order (age)
	SentAt    int64 // timed mode: tick of sending
	HandledAt int64
	Dups      int
	sender    *vsched.Task
	reqCanon  string
	// wire orders the accesses of sender and receiver for the race detector:
	// a message transfer is a real happens-before edge (the network), which the
	// invisible scheduler hand-offs would otherwise hide.
	wire    sync.Mutex
	handler *vsched.Task
}

type Network struct {
	C     *Cluster
	Msgs  []*Msg // not MDone
	seq   map[string]int
	order int
	// OnSend lets monitors see every outgoing request.
	OnSend func(m *Msg)
	// OnResponse lets monitors see every response produced by a handler.
	OnResponse func(m *Msg)
	// OnDeliver is called right before a request's handler runs.
	OnDeliver func(m *Msg)
	// OnReply lets monitors see every response handed back to its sender.
	OnReply func(m *Msg)
}

var errNet = errors.New("simnet: rpc failed")

// SimTransport is one node's raft.Transport.
type SimTransport struct {
	net     *Network
	node    int
	inc     int
	addr    string
	running bool
	ae      func(*raft.AppendEntriesRequest, *raft.AppendEntriesResponse) error
	rv      func(*raft.RequestVoteRequest, *raft.RequestVoteResponse) error
	is      func(*raft.InstallSnapshotRequest, *raft.InstallSnapshotResponse) error
}

func (t *SimTransport) Run() error      { t.running = true; return nil }
func (t *SimTransport) Shutdown() error { t.running = false; return nil }
func (t *SimTransport) Address() string { return t.addr }
func (t *SimTransport) RegisterAppendEntriesHandler(h func(*raft.AppendEntriesRequest, *raft.AppendEntriesResponse) error) {
	t.ae = h
}
func (t *SimTransport) RegisterRequestVoteHandler(h func(*raft.RequestVoteRequest, *raft.RequestVoteResponse) error) {
	t.rv = h
}
func (t *SimTransport) RegsiterInstallSnapshotHandler(h func(*raft.InstallSnapshotRequest, *raft.InstallSnapshotResponse) error) {
	t.is = h
}
func (t *SimTransport) EncodeConfiguration(c *raft.Configuration) ([]byte, error) {
	return raft.VerifEncodeConfiguration(c)
}
func (t *SimTransport) DecodeConfiguration(b []byte) (raft.Configuration, error) {
	return raft.VerifDecodeConfiguration(b)
}

func (t *SimTransport) send(kind, address string, fill func(m *Msg)) *Msg {
	n := t.net
	to := n.C.addrIndex(address)
	key := fmt.Sprintf("%d>%d:%s", t.node, to, kind)
	m := &Msg{ID: fmt.Sprintf("%s#%d", key, n.seq[key]), From: t.node, FromInc: t.inc, To: to, Kind: kind, Order: n.order, sender: vsched.Cur(), SentAt: n.C.Tick}
	n.seq[key]++
	n.order++
	m.wire.Lock()
	fill(m)
	m.wire.Unlock()
	if !t.running || to < 0 {
		m.State = MDone
		m.Err = errNet
		return m
	}
	n.Msgs = append(n.Msgs, m)
	if n.OnSend != nil {
		n.OnSend(m)
	}
	if m.sender == nil {
		panic("INFRA: transport send from the controller")
	}
	m.sender.Tag = m.ID
	vsched.Block("net", m, func() bool { return m.Replied })
	m.sender.Tag = ""
	m.wire.Lock()
	m.wire.Unlock()
	return m
}

func (t *SimTransport) SendAppendEntries(address string, r raft.AppendEntriesRequest) (raft.AppendEntriesResponse, error) {
	m := t.send("AE", address, func(m *Msg) { m.AE, m.ReqWire = raft.VerifWireAppendEntriesRequest(r) })
	if m.Err != nil {
		return raft.AppendEntriesResponse{}, m.Err
	}
	return m.AEr, nil
}

func (t *SimTransport) SendRequestVote(address string, r raft.RequestVoteRequest) (raft.RequestVoteResponse, error) {
	m := t.send("RV", address, func(m *Msg) { m.RV, m.ReqWire = raft.VerifWireRequestVoteRequest(r) })
	if m.Err != nil {
		return raft.RequestVoteResponse{}, m.Err
	}
	return m.RVr, nil
}

func (t *SimTransport) SendInstallSnapshot(address string, r raft.InstallSnapshotRequest) (raft.InstallSnapshotResponse, error) {
	m := t.send("IS", address, func(m *Msg) { m.IS, m.ReqWire = raft.VerifWireInstallSnapshotRequest(r) })
	if m.Err != nil {
		return raft.InstallSnapshotResponse{}, m.Err
	}
	return m.ISr, nil
}

// Order is the number of requests sent so far (a logical send clock).
func (n *Network) Order() int { return n.order }

func (n *Network) find(id string) *Msg {
	for _, m := range n.Msgs {
		if m.ID == id {
			return m
		}
	}
	return nil
}

func (n *Network) remove(m *Msg) {
	for i, x := range n.Msgs {
		if x == m {
			n.Msgs = append(n.Msgs[:i:i], n.Msgs[i+1:]...)
			return
		}
	}
}

func (n *Network) senderAlive(m *Msg) bool {
	return m.sender != nil && !m.sender.Done && !m.sender.Poisoned
}

// fail completes the message with an error for the sender.
func (n *Network) fail(m *Msg) {
	m.State = MDone
	m.Err = errNet
	m.Replied = true
	n.remove(m)
}

// runHandler executes the target's registered handler for m inside a managed
// task of the target node. dup: the response is discarded.
func (n *Network) runHandler(m *Msg, dup bool) {
	tn := n.C.Nodes[m.To]
	if !tn.Alive || tn.Tr == nil || !tn.Tr.running || tn.Tr.ae == nil {
		if !dup {
			n.fail(m)
		}
		return
	}
	tr := tn.Tr
	if n.OnDeliver != nil {
		n.OnDeliver(m)
	}
	name := fmt.Sprintf("handle%s<n%d", m.Kind, m.From)
	if dup {
		name += "/dup"
	}
	var task *vsched.Task
	task = vsched.Spawn(m.To, name, func() {
		var err error
		m.wire.Lock()
		defer m.wire.Unlock()
		switch m.Kind {
		case "AE":
			req, _ := raft.VerifWireAppendEntriesRequest(m.AE)
			var resp raft.AppendEntriesResponse
			err = tr.ae(&req, &resp)
			if !dup {
				m.AEr, m.RespWire = raft.VerifWireAppendEntriesResponse(resp)
			}
		case "RV":
			req := m.RV
			var resp raft.RequestVoteResponse
			err = tr.rv(&req, &resp)
			if !dup {
				m.RVr, m.RespWire = raft.VerifWireRequestVoteResponse(resp)
			}
		case "IS":
			req, _ := raft.VerifWireInstallSnapshotRequest(m.IS)
			var resp raft.InstallSnapshotResponse
			err = tr.is(&req, &resp)
			if !dup {
				m.ISr, m.RespWire = raft.VerifWireInstallSnapshotResponse(resp)
			}
		}
		if dup {
			return
		}
		if err != nil {
			m.Err = errNet
			m.RespWire = nil
		}
		m.State = MHandled
		m.HandledAt = n.C.Tick
		if n.OnResponse != nil {
			n.OnResponse(m)
		}
	})
	task.Tag = m.ID
	if !dup {
		m.State = MHandling
		m.handler = task
	}
}
