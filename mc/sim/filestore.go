package sim

import (
	"fmt"
	"io"
	"os"
	"path/filepath"

	"github.com/jmsadair/raft"
	"github.com/jmsadair/raft/verifshim/vos"
	"github.com/jmsadair/raft/verifshim/vsched"
)

// File-backed storage under the cluster simulation (C14): the node runs on
// the library's real Log / StateStorage / SnapshotStorage over a directory on
// tmpfs, every file-system call goes through the vos interception layer, and
// thin wrappers mirror what the storages returned into the in-memory "disk"
// structures the monitors read. After a restart the mirrors are rebuilt from
// what the real storages recovered.

type FileLog struct {
	real   raft.Log
	mirror *LogDisk
	c      *Cluster
	node   int
}

func (l *FileLog) sync() {
	if es := raft.VerifLogEntries(l.real); es != nil {
		l.mirror.Entries = es
	}
}

func (l *FileLog) Open() error { return l.real.Open() }
func (l *FileLog) Replay() error {
	err := l.real.Replay()
	if err == nil {
		l.sync()
	}
	return err
}
func (l *FileLog) Close() error                              { return l.real.Close() }
func (l *FileLog) GetEntry(i uint64) (*raft.LogEntry, error) { return l.real.GetEntry(i) }
func (l *FileLog) Contains(i uint64) bool                    { return l.real.Contains(i) }
func (l *FileLog) LastIndex() uint64                         { return l.real.LastIndex() }
func (l *FileLog) LastTerm() uint64                          { return l.real.LastTerm() }
func (l *FileLog) NextIndex() uint64                         { return l.real.NextIndex() }
func (l *FileLog) Size() int                                 { return l.real.Size() }
func (l *FileLog) AppendEntry(e *raft.LogEntry) error        { return l.AppendEntries([]*raft.LogEntry{e}) }
func (l *FileLog) AppendEntries(es []*raft.LogEntry) error {
	err := l.real.AppendEntries(es)
	if err == nil {
		l.sync()
		for _, f := range l.c.LogObservers {
			f(l.node, "append", 0, es)
		}
	}
	return err
}
func (l *FileLog) Truncate(i uint64) error {
	err := l.real.Truncate(i)
	if err == nil {
		l.sync()
		for _, f := range l.c.LogObservers {
			f(l.node, "truncate", i, nil)
		}
	}
	return err
}
func (l *FileLog) Compact(i uint64) error {
	err := l.real.Compact(i)
	if err == nil {
		l.sync()
	}
	return err
}
func (l *FileLog) DiscardEntries(i, t uint64) error {
	err := l.real.DiscardEntries(i, t)
	if err == nil {
		l.sync()
		for _, f := range l.c.LogObservers {
			f(l.node, "discard", i, nil)
		}
	}
	return err
}

type FileState struct {
	real   raft.StateStorage
	mirror *StateDisk
	dir    string
}

// The mirror holds what is on disk after the call, not what was asked for.
func (s *FileState) SetState(term uint64, vote string) error {
	err := s.real.SetState(term, vote)
	if t, v, ok := raft.VerifReadStateFile(s.dir); ok {
		*s.mirror = StateDisk{Term: t, Vote: v, Valid: true}
	}
	return err
}
func (s *FileState) State() (uint64, string, error) { return s.real.State() }

type FileSnapStore struct {
	real   raft.SnapshotStorage
	mirror *SnapDisk
}

type fileSnapFile struct {
	raft.SnapshotFile
	store *FileSnapStore
	local bool
	isNew bool
}

func (s *FileSnapStore) NewSnapshotFile(i, t uint64, conf []byte) (raft.SnapshotFile, error) {
	f, err := s.real.NewSnapshotFile(i, t, conf)
	if err != nil {
		return nil, err
	}
	return &fileSnapFile{SnapshotFile: f, store: s, isNew: true}, nil
}

func (s *FileSnapStore) SnapshotFile() (raft.SnapshotFile, error) { return s.real.SnapshotFile() }

func (f *fileSnapFile) Close() error {
	err := f.SnapshotFile.Close()
	if err == nil && f.isNew {
		f.isNew = false
		f.store.reload(f.local)
	}
	return err
}

// MarkLocal is called by recfsm when it writes the snapshot itself.
func (f *fileSnapFile) MarkLocal() { f.local = true }

// reload re-reads the newest snapshot through the real storage into the mirror.
func (s *FileSnapStore) reload(local bool) {
	f, err := s.real.SnapshotFile()
	if err != nil || f == nil {
		return
	}
	data, _ := io.ReadAll(f)
	f.Close()
	meta := f.Metadata()
	for _, old := range s.mirror.Snaps {
		if old.Meta.LastIncludedIndex == meta.LastIncludedIndex && old.Meta.LastIncludedTerm == meta.LastIncludedTerm && string(old.Data) == string(data) {
			return
		}
	}
	s.mirror.Snaps = append(s.mirror.Snaps, &Snap{Meta: meta, Data: data, Local: local})
}

// constructFiles builds the node's storages over its directory. A failing
// constructor is what C14 calls "creating a node over the same directory does
// not succeed".
func (c *Cluster) constructFiles(n *Node) (raft.Log, raft.StateStorage, raft.SnapshotStorage, error) {
	dir := filepath.Join(c.Dir, fmt.Sprintf("n%d", n.Idx))
	if err := os.MkdirAll(dir, 0o755); err != nil {
		return nil, nil, nil, err
	}
	vsched.CtlNode = n.Idx
	vsched.CtlInc = n.Inc
	lg, err := raft.NewLog(dir)
	if err != nil {
		return nil, nil, nil, fmt.Errorf("NewLog: %w", err)
	}
	st, err := raft.NewStateStorage(dir)
	if err != nil {
		return nil, nil, nil, fmt.Errorf("NewStateStorage: %w", err)
	}
	sn, err := raft.NewSnapshotStorage(dir)
	if err != nil {
		return nil, nil, nil, fmt.Errorf("NewSnapshotStorage: %w", err)
	}
	fs := &FileSnapStore{real: sn, mirror: n.Sn}
	// what the storages recovered is what is on disk now
	n.Sn.Snaps = nil
	fs.reload(false)
	if t, v, err := st.State(); err == nil {
		*n.St = StateDisk{Term: t, Vote: v, Valid: t != 0 || v != ""}
	}
	return &FileLog{real: lg, mirror: n.Log, c: c, node: n.Idx}, &FileState{real: st, mirror: n.St, dir: dir}, fs, nil
}

// ArmFs is the ArmSpec phase of a crash armed on the real storages: it fires
// at a mutating file-system call instead of a storage-interface boundary.
const ArmFs = 2

// CrashPlan arms a crash of one node at its k-th mutating file-system call.
type CrashPlan struct {
	Node    int
	Call    int // 1-based index among the node's mutating calls since boot
	Partial int // >=0: the call is a write and only this many bytes reach the disk
	// Call2 (>0): a second crash of the same node at this (cumulative) call,
	// i.e. while it recovers from the first one or shortly after
	Call2 int
}

// InstallIntercept counts file-system calls per node and performs the planned
// crash. It returns the per-node counters (mutating calls).
func (c *Cluster) InstallIntercept(plan *CrashPlan) {
	c.FsCalls = make([]int, c.Cfg.Voters+c.Cfg.Spares)
	c.FsTrace = nil
	c.RecordFs = c.Cfg.RecordFs
	dead := map[[2]int]bool{}
	vos.Track = true
	vos.Intercept = func(call *vos.Call) int {
		k := [2]int{call.Node, call.Inc}
		if dead[k] {
			return vos.Deny
		}
		if call.Node < 0 || call.Node >= len(c.FsCalls) || !call.Mutating {
			return vos.Proceed
		}
		c.FsCalls[call.Node]++
		if c.RecordFs {
			c.FsTrace = append(c.FsTrace, fmt.Sprintf("n%d #%d %s %s n=%d", call.Node, c.FsCalls[call.Node], call.Op, filepath.Base(call.Path), call.N))
		}
		if plan != nil && plan.Node == call.Node && plan.Call == c.FsCalls[call.Node] && !c.crashDone {
			c.crashDone = true
			dead[k] = true
			c.PlannedDead[k] = true
			c.CrashedAt = fmt.Sprintf("%s %s (call %d of n%d)", call.Op, filepath.Base(call.Path), plan.Call, call.Node)
			if vsched.Cur() != nil {
				c.crashQ = append(c.crashQ, call.Node)
				vsched.Interrupt()
			} else {
				c.ctlCrash = true
			}
			if plan.Partial >= 0 && call.Op == "Write" {
				return plan.Partial
			}
			return vos.Deny
		}
		// exploration: a crash armed by an "arm" event fires before the node's
		// (Skip+1)-th next mutating call
		if a := c.Armed[call.Node]; a != nil && a.Phase == ArmFs {
			if a.Skip > 0 {
				a.Skip--
				return vos.Proceed
			}
			delete(c.Armed, call.Node)
			dead[k] = true
			c.PlannedDead[k] = true
			c.CrashedAt = fmt.Sprintf("%s %s (armed, n%d)", call.Op, filepath.Base(call.Path), call.Node)
			if vsched.Cur() != nil {
				c.crashQ = append(c.crashQ, call.Node)
				vsched.Interrupt()
			} else {
				c.ctlCrash = true
			}
			return vos.Deny
		}
		if plan != nil && plan.Call2 > 0 && plan.Node == call.Node && plan.Call2 == c.FsCalls[call.Node] && c.crashDone && !c.crashDone2 {
			c.crashDone2 = true
			dead[k] = true
			c.PlannedDead[k] = true
			c.CrashedAt2 = fmt.Sprintf("%s %s (call %d of n%d, second crash)", call.Op, filepath.Base(call.Path), plan.Call2, call.Node)
			if vsched.Cur() != nil {
				c.crashQ = append(c.crashQ, call.Node)
				vsched.Interrupt()
			} else {
				c.ctlCrash = true
			}
			return vos.Deny
		}
		return vos.Proceed
	}
}

// RemoveIntercept restores pass-through file access and closes leaked descriptors.
func (c *Cluster) RemoveIntercept() {
	vos.Intercept = nil
	vos.CloseTracked()
	vos.Track = false
}
