package sim

import (
	"fmt"
	"strings"
	"time"

	"github.com/jmsadair/raft"
	"github.com/jmsadair/raft/verifshim/vsched"
)

// API events (C18, C20): public API calls issued from client goroutines under
// the scheduler. Event.S names the call, e.g. "Start", "Stop", "Restart",
// "Bootstrap:ok", "Bootstrap:noself", "Status", "Configuration",
// "StateString", "OpTypeString:3", "Submit:0:data:long" (type:data:timeout),
// "Add:3:voter", "Add:self:nonvoter", "Add:empty:voter", "Remove:2",
// "Remove:stranger", "Await:<op>".

type APIResult struct {
	Node int
	Call string
	Done bool
	Err  string
	Out  string
}

func (c *Cluster) members() map[string]string {
	m := map[string]string{}
	for i := 0; i < c.Cfg.Voters; i++ {
		m[nodeID(i)] = nodeAddr(i)
	}
	return m
}

func (c *Cluster) applyAPI(e Event) error {
	n := c.Nodes[e.N]
	if n.R == nil {
		return fmt.Errorf("api: n%d has no instance", e.N)
	}
	r := n.R
	res := &APIResult{Node: e.N, Call: e.S}
	c.API = append(c.API, res)
	f := strings.Split(e.S, ":")
	arg := func(i int) string {
		if i < len(f) {
			return f[i]
		}
		return ""
	}
	errStr := func(err error) string {
		if err == nil {
			return ""
		}
		return err.Error()
	}
	var fn func()
	switch f[0] {
	case "Start":
		fn = func() { res.Err = errStr(r.Start()); n.Alive = true }
	case "Restart":
		fn = func() { res.Err = errStr(r.Restart()); n.Alive = true }
	case "Stop":
		fn = func() { r.Stop() }
	case "Bootstrap":
		m := c.members()
		m[n.ID] = n.Addr
		if arg(1) == "noself" {
			delete(m, n.ID)
		}
		fn = func() { res.Err = errStr(r.Bootstrap(m)) }
	case "Status":
		fn = func() { st := r.Status(); res.Out = fmt.Sprintf("%d/%d", st.State, st.Term) }
	case "Configuration":
		fn = func() { cf := r.Configuration(); res.Out = CanonConfiguration(&cf) }
	case "StateString":
		fn = func() { res.Out = r.Status().State.String() }
	case "OpTypeString":
		var x int
		fmt.Sscan(arg(1), &x)
		fn = func() { res.Out = raft.OperationType(x).String() }
	case "Submit":
		var typ int
		fmt.Sscan(arg(1), &typ)
		var data []byte
		if arg(2) == "data" {
			data = []byte(fmt.Sprintf("a%d", len(c.Ops)))
		}
		to := time.Hour
		if arg(3) == "zero" {
			to = 0
		}
		kind := map[int]string{0: "write", 1: "read", 2: "lease"}[typ]
		if kind == "" {
			kind = "bogus"
		}
		op := &ClientOp{ID: len(c.Ops), Kind: kind, Node: e.N, Data: string(data), SendClock: c.Net.Order()}
		c.Ops = append(c.Ops, op)
		c.Hist = append(c.Hist, fmt.Sprintf("i%d", op.ID))
		fn = func() { op.OpFut = r.SubmitOperation(data, raft.OperationType(typ), to) }
	case "Add", "Remove":
		id, addr := "", ""
		switch arg(1) {
		case "self":
			id, addr = n.ID, n.Addr
		case "empty":
		case "stranger":
			id, addr = "nX", "127.0.0.99:8080"
		default:
			var k int
			fmt.Sscan(arg(1), &k)
			id, addr = c.Nodes[k].ID, c.Nodes[k].Addr
		}
		op := &ClientOp{ID: len(c.Ops), Kind: strings.ToLower(f[0]), Node: e.N, Target: c.idIndex(id), Voter: arg(2) == "voter", TargetID: id}
		c.NoteSubmission(op)
		c.Ops = append(c.Ops, op)
		c.Hist = append(c.Hist, fmt.Sprintf("i%d", op.ID))
		if f[0] == "Add" {
			fn = func() { op.CfFut = r.AddServer(id, addr, op.Voter, time.Hour) }
		} else {
			fn = func() { op.CfFut = r.RemoveServer(id, time.Hour) }
		}
	default:
		return fmt.Errorf("api: unknown call %q", e.S)
	}
	vsched.Spawn(e.N, "api:"+f[0], func() {
		fn()
		res.Done = true
	})
	return nil
}
