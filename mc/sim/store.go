package sim

import (
	"bytes"
	"encoding/binary"
	"errors"
	"fmt"
	"io"

	"github.com/jmsadair/raft"
)

// StorageHook is called before and after every mutating storage call of a node
// (crash injection and monitors). phase 0 = before, 1 = after.
type StorageHook func(node int, op string, phase int)

// ---------------------------------------------------------------------------
// Log: in-memory stand-in for the file-backed log with the same observable
// behaviour (placeholder entry, Contains arithmetic, pointer sharing); the
// "disk" part survives a crash, the handle does not. It doubles as the
// reference model of C12.

type LogDisk struct {
	Entries []raft.LogEntry // includes the placeholder at [0] once replayed
}

func (d *LogDisk) Clone() *LogDisk {
	c := &LogDisk{Entries: make([]raft.LogEntry, len(d.Entries))}
	copy(c.Entries, d.Entries)
	return c
}

type MemLog struct {
	Disk *LogDisk
	Node int
	Hook StorageHook
	// Observe, if set, sees every change of the log content as it happens
	// (monitors that must not miss states between two quiescent points).
	Observe func(node int, op string, index uint64, entries []*raft.LogEntry)
	open    bool
	mem     []*raft.LogEntry
}

func NewMemLog(node int, disk *LogDisk, hook StorageHook) *MemLog {
	return &MemLog{Disk: disk, Node: node, Hook: hook}
}

func (l *MemLog) hook(op string, phase int) {
	if l.Hook != nil {
		l.Hook(l.Node, op, phase)
	}
}

func (l *MemLog) Open() error {
	l.open = true
	l.mem = make([]*raft.LogEntry, 0)
	return nil
}

func (l *MemLog) Replay() error {
	for i := range l.Disk.Entries {
		e := l.Disk.Entries[i]
		l.mem = append(l.mem, &e)
	}
	if len(l.mem) == 0 {
		l.hook("log.init", 0)
		l.Disk.Entries = append(l.Disk.Entries, raft.LogEntry{})
		l.mem = append(l.mem, &raft.LogEntry{})
		l.hook("log.init", 1)
	}
	return nil
}

func (l *MemLog) Close() error {
	if !l.open {
		return nil
	}
	l.open = false
	l.mem = nil
	return nil
}

func (l *MemLog) Contains(index uint64) bool {
	logIndex := index - l.mem[0].Index
	return !(logIndex <= 0 || logIndex >= uint64(len(l.mem)))
}

func (l *MemLog) GetEntry(index uint64) (*raft.LogEntry, error) {
	if !l.open {
		return nil, errors.New("could not get entry: log not open")
	}
	if !l.Contains(index) {
		return nil, fmt.Errorf("could not get entry: index %d does not exist", index)
	}
	return l.mem[index-l.mem[0].Index], nil
}

func (l *MemLog) AppendEntry(entry *raft.LogEntry) error {
	return l.AppendEntries([]*raft.LogEntry{entry})
}

func (l *MemLog) AppendEntries(entries []*raft.LogEntry) error {
	if !l.open {
		return errors.New("could not append entries: log not open")
	}
	if len(entries) == 0 {
		return nil
	}
	l.hook("log.append", 0)
	for _, e := range entries {
		c := *e
		c.Data = append([]byte(nil), e.Data...)
		l.Disk.Entries = append(l.Disk.Entries, c)
	}
	l.mem = append(l.mem, entries...)
	if l.Observe != nil {
		l.Observe(l.Node, "append", 0, entries)
	}
	l.hook("log.append", 1)
	return nil
}

func (l *MemLog) Truncate(index uint64) error {
	if !l.open {
		return errors.New("could not truncate log: log not open")
	}
	if !l.Contains(index) {
		return fmt.Errorf("could not truncate log: index %d does not exist", index)
	}
	l.hook("log.truncate", 0)
	li := index - l.mem[0].Index
	l.mem = l.mem[:li]
	l.Disk.Entries = l.Disk.Entries[:li]
	if l.Observe != nil {
		l.Observe(l.Node, "truncate", index, nil)
	}
	l.hook("log.truncate", 1)
	return nil
}

func (l *MemLog) Compact(index uint64) error {
	if !l.open {
		return errors.New("could not compact log: log not open")
	}
	if !l.Contains(index) {
		return fmt.Errorf("could not compact log: index %d does not exist", index)
	}
	l.hook("log.compact", 0)
	li := index - l.mem[0].Index
	nm := make([]*raft.LogEntry, uint64(len(l.mem))-li)
	copy(nm, l.mem[li:])
	l.mem = nm
	nd := make([]raft.LogEntry, len(nm))
	copy(nd, l.Disk.Entries[li:])
	l.Disk.Entries = nd
	l.hook("log.compact", 1)
	return nil
}

func (l *MemLog) DiscardEntries(index uint64, term uint64) error {
	if !l.open {
		return errors.New("could not discard log: log not open")
	}
	l.hook("log.discard", 0)
	e := &raft.LogEntry{Index: index, Term: term}
	l.mem = []*raft.LogEntry{e}
	l.Disk.Entries = []raft.LogEntry{*e}
	if l.Observe != nil {
		l.Observe(l.Node, "discard", index, nil)
	}
	l.hook("log.discard", 1)
	return nil
}

func (l *MemLog) LastTerm() uint64  { return l.mem[len(l.mem)-1].Term }
func (l *MemLog) LastIndex() uint64 { return l.mem[len(l.mem)-1].Index }
func (l *MemLog) NextIndex() uint64 { return l.mem[len(l.mem)-1].Index + 1 }
func (l *MemLog) Size() int         { return len(l.mem) - 1 }

// ---------------------------------------------------------------------------
// Term/vote storage.

type StateDisk struct {
	Term  uint64
	Vote  string
	Valid bool
}

type MemState struct {
	Disk *StateDisk
	Node int
	Hook StorageHook
}

func (s *MemState) SetState(term uint64, vote string) error {
	if s.Hook != nil {
		s.Hook(s.Node, "state.set", 0)
	}
	s.Disk.Term, s.Disk.Vote, s.Disk.Valid = term, vote, true
	if s.Hook != nil {
		s.Hook(s.Node, "state.set", 1)
	}
	return nil
}

func (s *MemState) State() (uint64, string, error) {
	if !s.Disk.Valid {
		return 0, "", nil
	}
	return s.Disk.Term, s.Disk.Vote, nil
}

// ---------------------------------------------------------------------------
// Snapshot storage.

type Snap struct {
	Meta  raft.SnapshotMetadata
	Data  []byte
	Local bool // written by this node's own state machine (not received)
	Seq   int  // creation order (the file-backed storage names a snapshot after the time NewSnapshotFile was called)
}

type SnapDisk struct {
	// closed snapshots ordered as the file-backed storage orders them: by
	// creation, not by completion ("most recent" is the last one)
	Snaps   []*Snap
	NextSeq int
}

type MemSnapStore struct {
	Disk *SnapDisk
	Node int
	Hook StorageHook
}

type MemSnapFile struct {
	store   *MemSnapStore
	meta    raft.SnapshotMetadata
	buf     []byte
	off     int64
	writing bool
	closed  bool
	local   bool
	seq     int
}

func (s *MemSnapStore) hook(op string, phase int) {
	if s.Hook != nil {
		s.Hook(s.Node, op, phase)
	}
}

func (s *MemSnapStore) NewSnapshotFile(idx, term uint64, conf []byte) (raft.SnapshotFile, error) {
	s.hook("snap.new", 0)
	s.Disk.NextSeq++
	f := &MemSnapFile{store: s, writing: true, seq: s.Disk.NextSeq, meta: raft.SnapshotMetadata{LastIncludedIndex: idx, LastIncludedTerm: term, Configuration: append([]byte(nil), conf...)}}
	s.hook("snap.new", 1)
	return f, nil
}

func (s *MemSnapStore) SnapshotFile() (raft.SnapshotFile, error) {
	if len(s.Disk.Snaps) == 0 {
		return nil, nil
	}
	sn := s.Disk.Snaps[len(s.Disk.Snaps)-1]
	return &MemSnapFile{store: s, meta: sn.Meta, buf: sn.Data}, nil
}

func (f *MemSnapFile) Read(p []byte) (int, error) {
	if f.closed {
		return 0, errors.New("snapshot file already closed")
	}
	if f.off >= int64(len(f.buf)) {
		return 0, io.EOF
	}
	n := copy(p, f.buf[f.off:])
	f.off += int64(n)
	return n, nil
}

func (f *MemSnapFile) Write(p []byte) (int, error) {
	if f.closed {
		return 0, errors.New("snapshot file already closed")
	}
	if !f.writing {
		return 0, errors.New("snapshot file is read-only")
	}
	f.store.hook("snap.write", 0)
	end := f.off + int64(len(p))
	if end > int64(len(f.buf)) {
		nb := make([]byte, end)
		copy(nb, f.buf)
		f.buf = nb
	}
	copy(f.buf[f.off:], p)
	f.off = end
	f.store.hook("snap.write", 1)
	return len(p), nil
}

func (f *MemSnapFile) Seek(offset int64, whence int) (int64, error) {
	if f.closed {
		return 0, errors.New("snapshot file already closed")
	}
	var n int64
	switch whence {
	case io.SeekStart:
		n = offset
	case io.SeekCurrent:
		n = f.off + offset
	case io.SeekEnd:
		n = int64(len(f.buf)) + offset
	}
	if n < 0 {
		return 0, errors.New("negative position")
	}
	f.off = n
	return n, nil
}

func (f *MemSnapFile) Close() error {
	if f.closed {
		return nil
	}
	if f.writing {
		f.store.hook("snap.close", 0)
		sn := &Snap{Meta: f.meta, Data: append([]byte(nil), f.buf...), Local: f.local, Seq: f.seq}
		snaps := f.store.Disk.Snaps
		k := len(snaps)
		for k > 0 && snaps[k-1].Seq > sn.Seq {
			k--
		}
		snaps = append(snaps, nil)
		copy(snaps[k+1:], snaps[k:])
		snaps[k] = sn
		f.store.Disk.Snaps = snaps
		f.closed = true
		f.store.hook("snap.close", 1)
		return nil
	}
	f.closed = true
	return nil
}

func (f *MemSnapFile) Discard() error {
	if f.closed || !f.writing {
		return nil
	}
	f.closed = true
	return nil
}

func (f *MemSnapFile) Metadata() raft.SnapshotMetadata { return f.meta }

// Describe is used by the state key.
func (f *MemSnapFile) Describe() string {
	return fmt.Sprintf("snapfile{idx=%d term=%d w=%t closed=%t off=%d len=%d}", f.meta.LastIncludedIndex, f.meta.LastIncludedTerm, f.writing, f.closed, f.off, len(f.buf))
}

// ---------------------------------------------------------------------------
// recfsm: the simplest state machine for which "state <=> applied sequence" is
// injective. Every call is recorded.

type Applied struct {
	Index, Term uint64
	Data        string
}

type FsmCall struct {
	Node, Inst int
	Kind       string // apply | read | snapshot | restore
	Index      uint64
	Term       uint64
	Data       string
	Len        int // list length after the call (apply/read/restore) or at snapshot
	List       []Applied
}

type ApplyResult struct {
	Len  int
	Last string
}

type RecFSM struct {
	Node, Inst int
	List       []Applied
	Threshold  int // NeedSnapshot when logSize >= Threshold (0 = never)
	Pad        int // snapshot padding bytes
	Rec        func(FsmCall)
	// Point, if set, is called before each call with the node lock released
	// (a scheduling point in SCHED mode).
	Point func(kind string)
}

func (m *RecFSM) Apply(op *raft.Operation) interface{} {
	if op.OperationType == raft.Replicated {
		if m.Point != nil {
			m.Point("apply")
		}
		m.List = append(m.List, Applied{op.LogIndex, op.LogTerm, string(op.Bytes)})
		if m.Rec != nil {
			m.Rec(FsmCall{Node: m.Node, Inst: m.Inst, Kind: "apply", Index: op.LogIndex, Term: op.LogTerm, Data: string(op.Bytes), Len: len(m.List)})
		}
		return ApplyResult{Len: len(m.List), Last: string(op.Bytes)}
	}
	if m.Point != nil {
		m.Point("read")
	}
	last := ""
	if len(m.List) > 0 {
		last = m.List[len(m.List)-1].Data
	}
	if m.Rec != nil {
		m.Rec(FsmCall{Node: m.Node, Inst: m.Inst, Kind: "read", Data: string(op.Bytes), Len: len(m.List)})
	}
	return ApplyResult{Len: len(m.List), Last: last}
}

func EncodeList(list []Applied, pad int) []byte {
	var b bytes.Buffer
	binary.Write(&b, binary.BigEndian, uint32(len(list)))
	for _, a := range list {
		binary.Write(&b, binary.BigEndian, a.Index)
		binary.Write(&b, binary.BigEndian, a.Term)
		binary.Write(&b, binary.BigEndian, uint32(len(a.Data)))
		b.WriteString(a.Data)
	}
	b.Write(make([]byte, pad))
	return b.Bytes()
}

func DecodeList(data []byte) ([]Applied, error) {
	r := bytes.NewReader(data)
	var n uint32
	if err := binary.Read(r, binary.BigEndian, &n); err != nil {
		return nil, err
	}
	out := make([]Applied, 0, n)
	for i := uint32(0); i < n; i++ {
		var a Applied
		var l uint32
		if err := binary.Read(r, binary.BigEndian, &a.Index); err != nil {
			return nil, err
		}
		if err := binary.Read(r, binary.BigEndian, &a.Term); err != nil {
			return nil, err
		}
		if err := binary.Read(r, binary.BigEndian, &l); err != nil {
			return nil, err
		}
		buf := make([]byte, l)
		if _, err := io.ReadFull(r, buf); err != nil {
			return nil, err
		}
		a.Data = string(buf)
		out = append(out, a)
	}
	return out, nil
}

func (m *RecFSM) Snapshot(w io.Writer) error {
	if m.Point != nil {
		m.Point("snapshot")
	}
	list := append([]Applied(nil), m.List...)
	if m.Rec != nil {
		m.Rec(FsmCall{Node: m.Node, Inst: m.Inst, Kind: "snapshot", Len: len(list), List: list})
	}
	if sf, ok := w.(*MemSnapFile); ok {
		sf.local = true
	}
	if ml, ok := w.(interface{ MarkLocal() }); ok {
		ml.MarkLocal()
	}
	_, err := w.Write(EncodeList(list, m.Pad))
	return err
}

func (m *RecFSM) Restore(r io.Reader) error {
	if m.Point != nil {
		m.Point("restore")
	}
	data, err := io.ReadAll(r)
	if err != nil {
		return err
	}
	list, err := DecodeList(data)
	if err != nil {
		return err
	}
	m.List = list
	if m.Rec != nil {
		m.Rec(FsmCall{Node: m.Node, Inst: m.Inst, Kind: "restore", Len: len(list), List: append([]Applied(nil), list...)})
	}
	return nil
}

func (m *RecFSM) NeedSnapshot(logSize int) bool {
	return m.Threshold > 0 && logSize >= m.Threshold
}
