package sim

import (
	"fmt"

	"github.com/jmsadair/raft"
	"github.com/jmsadair/raft/verifshim/vsched"
	"github.com/jmsadair/raft/verifshim/vtime"
)

// Preload describes the persistent state a single real node boots from. Node
// states of the HANDLER engines are constructed this way (storage contents +
// a real boot), never by poking fields.
type Preload struct {
	Peers    int             // total members (voters) n0..n(Peers-1); only n0 is real
	Entries  []raft.LogEntry // entries after the placeholder, contiguous
	SnapIdx  uint64          // compacted prefix (0 = none)
	SnapTerm uint64
	SnapList []Applied // state machine content of the snapshot
	Term     uint64
	Vote     string
	HasState bool
	SnapAt   int
	Hook     bool
}

// ConfData returns the encoded configuration {n0..n(k-1)} all voters, at index idx.
func ConfData(k int, idx uint64) []byte {
	m := map[string]string{}
	for i := 0; i < k; i++ {
		m[nodeID(i)] = nodeAddr(i)
	}
	c := raft.NewConfiguration(idx, m)
	b, err := raft.VerifEncodeConfiguration(c)
	if err != nil {
		panic(err)
	}
	return b
}

// NewSingle boots one real node (n0) inside a cluster whose other members are
// puppets played by the harness.
func NewSingle(p Preload, b Budget) *Cluster {
	vsched.Reset()
	vtime.Reset()
	cfg := Config{Voters: p.Peers, SnapAt: p.SnapAt, StoreHook: p.Hook, Puppets: true}
	c := &Cluster{Cfg: cfg, B: b, Armed: map[int]*ArmSpec{}}
	c.Net = &Network{C: c, seq: map[string]int{}}
	c.Blocked = make([][]bool, p.Peers)
	for i := range c.Blocked {
		c.Blocked[i] = make([]bool, p.Peers)
	}
	vsched.RandHook = func(n int64) int64 { return 0 }
	vsched.OnExit = func(node, code int) {
		if node >= 0 && node < len(c.Nodes) {
			c.Nodes[node].Fatal = fmt.Sprintf("os.Exit(%d)", code)
			c.crashQ = append(c.crashQ, node)
			vsched.Interrupt()
		}
	}
	for i := 0; i < p.Peers; i++ {
		c.Nodes = append(c.Nodes, &Node{Idx: i, ID: nodeID(i), Addr: nodeAddr(i), Log: &LogDisk{}, St: &StateDisk{}, Sn: &SnapDisk{}})
	}
	n := c.Nodes[0]
	n.Log.Entries = append([]raft.LogEntry{{Index: p.SnapIdx, Term: p.SnapTerm}}, p.Entries...)
	if p.SnapIdx > 0 {
		n.Sn.Snaps = append(n.Sn.Snaps, &Snap{Meta: raft.SnapshotMetadata{LastIncludedIndex: p.SnapIdx, LastIncludedTerm: p.SnapTerm, Configuration: ConfData(p.Peers, 1)}, Data: EncodeList(p.SnapList, 0)})
	}
	if p.HasState {
		*n.St = StateDisk{Term: p.Term, Vote: p.Vote, Valid: true}
	}
	c.construct(n)
	c.start(n)
	c.settle()
	return c
}

// Inject runs n0's handler for a request sent by puppet `from` and returns the
// message (with the response) once the system is quiescent again.
func (c *Cluster) Inject(from int, kind string, fill func(m *Msg)) *Msg {
	key := fmt.Sprintf("%d>0:%s", from, kind)
	m := &Msg{ID: fmt.Sprintf("%s#%d", key, c.Net.seq[key]), From: from, To: 0, Kind: kind, Order: c.Net.order}
	c.Net.seq[key]++
	c.Net.order++
	fill(m)
	c.Net.Msgs = append(c.Net.Msgs, m)
	c.Net.runHandler(m, false)
	c.settle()
	if m.State == MHandled || m.State == MDone {
		c.Net.remove(m)
	}
	return m
}
