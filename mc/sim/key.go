package sim

import (
	"bytes"
	"crypto/sha256"
	"encoding/binary"
	"fmt"
	"reflect"
	"sort"
	"time"
	"unsafe"

	"github.com/jmsadair/raft/verifshim/vsched"
	"github.com/jmsadair/raft/verifshim/vtime"
)

// Key computes the canonical state key of the cluster (DESIGN 2.4): library
// state by reflection (so fields added by a later change are included
// automatically), persistent storage, live goroutines with what they wait for,
// the network, client operations and remaining budgets. extra is the
// monitors' memory.
func (c *Cluster) Key(extra []byte) [16]byte {
	var b bytes.Buffer
	c.DumpTo(&b)
	b.Write(extra)
	s := sha256.Sum256(b.Bytes())
	var k [16]byte
	copy(k[:], s[:16])
	return k
}

// Dump returns the canonical state as text (debugging / replay files).
func (c *Cluster) Dump() string {
	var b bytes.Buffer
	c.DumpTo(&b)
	return b.String()
}

var timeType = reflect.TypeOf(time.Time{})

type dumper struct {
	b     *bytes.Buffer
	c     *Cluster
	node  int
	ptrs  map[uintptr]int
	chans map[uintptr]string
	conds map[uintptr]string
	depth int
}

// Fields of Raft that are dumped elsewhere or carry no protocol state.
var skipRaftField = map[string]bool{
	"logger": true, "transport": true, "log": true, "stateStorage": true,
	"snapshotStorage": true, "fsm": true, "options": true, "id": true, "address": true,
}

func (c *Cluster) DumpTo(b *bytes.Buffer) {
	chans := map[uintptr]string{}
	for _, op := range c.Ops {
		var f any
		if op.OpFut != nil {
			f = op.OpFut
		} else if op.CfFut != nil {
			f = op.CfFut
		}
		if f != nil {
			if ch := raftFutureChan(f); ch != 0 {
				chans[ch] = fmt.Sprintf("op%d", op.ID)
			}
		}
	}
	conds := map[uintptr]string{}
	for _, n := range c.Nodes {
		fmt.Fprintf(b, "N%d alive=%t fatal=%q\n", n.Idx, n.Alive, n.Fatal)
		fmt.Fprintf(b, " log:")
		for _, e := range n.Log.Entries {
			fmt.Fprintf(b, " %s", CanonEntry(&e))
		}
		fmt.Fprintf(b, "\n st:%t/%d/%s\n", n.St.Valid, n.St.Term, n.St.Vote)
		for _, s := range n.Sn.Snaps {
			h := sha256.Sum256(s.Data)
			fmt.Fprintf(b, " snap:%d/%d/%s/%x", s.Meta.LastIncludedIndex, s.Meta.LastIncludedTerm, CanonConf(s.Meta.Configuration), h[:8])
		}
		if a := c.Armed[n.Idx]; a != nil {
			fmt.Fprintf(b, " armed:%d/%d", a.Skip, a.Phase)
		}
		if !n.Alive {
			continue
		}
		d := &dumper{b: b, c: c, node: n.Idx, ptrs: map[uintptr]int{}, chans: chans, conds: conds}
		rv := reflect.ValueOf(n.R).Elem()
		rt := rv.Type()
		for i := 0; i < rt.NumField(); i++ {
			f := rt.Field(i)
			if skipRaftField[f.Name] {
				continue
			}
			fv := rv.Field(i)
			if f.Type.Kind() == reflect.Ptr && f.Type.Elem().Name() == "Cond" {
				if !fv.IsNil() {
					conds[fv.Pointer()] = fmt.Sprintf("n%d.%s", n.Idx, f.Name)
				}
				continue
			}
			fmt.Fprintf(b, " %s=", f.Name)
			d.val(fv)
			b.WriteByte('\n')
		}
		fmt.Fprintf(b, " fsm:%d", len(n.Fsm.List))
		for _, a := range n.Fsm.List {
			fmt.Fprintf(b, " %d/%d/%s", a.Index, a.Term, a.Data)
		}
		b.WriteByte('\n')
	}
	// tasks
	argIDs := map[uintptr]int{}
	for _, t := range vsched.Tasks() {
		fmt.Fprintf(b, "T %s %s", t.Name, t.BlockKind)
		switch o := t.BlockObj.(type) {
		case *Msg:
			fmt.Fprintf(b, " msg=%s", o.class())
		case *vtime.Sleeper:
			fmt.Fprintf(b, " sleep fired=%t", o.Fired)
			if c.Cfg.Timed {
				fmt.Fprintf(b, " in=%d", o.Deadline-vtime.NowOf(o.Node))
			}
		default:
			if o != nil {
				rv := reflect.ValueOf(o)
				if rv.Kind() == reflect.Ptr {
					if nm, ok := conds[rv.Pointer()]; ok {
						fmt.Fprintf(b, " %s", nm)
					}
				}
			}
		}
		if t.Tag != "" {
			if m := c.Net.find(t.Tag); m != nil {
				fmt.Fprintf(b, " serving=%s", m.class())
			}
		}
		for _, a := range t.Args {
			rv := reflect.ValueOf(a)
			if rv.Kind() == reflect.Ptr && !rv.IsNil() {
				id, ok := argIDs[rv.Pointer()]
				if !ok {
					id = len(argIDs)
					argIDs[rv.Pointer()] = id
				}
				fmt.Fprintf(b, " arg@%d=", id)
				if rv.Elem().Kind() == reflect.Int {
					fmt.Fprintf(b, "%d", rv.Elem().Int())
				}
			}
		}
		b.WriteByte('\n')
	}
	// network (multiset by content)
	var ms []string
	for _, m := range c.Net.Msgs {
		s := m.class()
		if !c.Net.senderAlive(m) {
			s += " orphan"
		}
		if m.Dups > 0 {
			s += " dup"
		}
		if c.Cfg.Timed {
			s += fmt.Sprintf(" age=%d", c.Tick-m.SentAt)
		}
		ms = append(ms, s)
	}
	sort.Strings(ms)
	for _, s := range ms {
		fmt.Fprintf(b, "M %s\n", s)
	}
	// reorder-relevant order: relative age of sent messages per destination
	if c.B.Reorders >= 0 {
		msgs := append([]*Msg(nil), c.Net.Msgs...)
		sort.Slice(msgs, func(i, j int) bool { return msgs[i].Order < msgs[j].Order })
		for _, m := range msgs {
			if m.State == MSent {
				fmt.Fprintf(b, "O %s\n", m.class())
			}
		}
	}
	for _, op := range c.Ops {
		fmt.Fprintf(b, "OP %d %s n%d %s res=%t gone=%t err=%v", op.ID, op.Kind, op.Node, op.Data, op.Resolved, op.Gone, op.Err)
		if op.Resolved && op.Err == nil && op.OpFut != nil {
			fmt.Fprintf(b, " %d/%d/%s/%v", op.Resp.Operation.LogIndex, op.Resp.Operation.LogTerm, op.Resp.Operation.Bytes, op.Resp.ApplicationResponse)
		}
		b.WriteByte('\n')
	}
	fmt.Fprintf(b, "H %v\nB %s\nP %v\n", c.Hist, c.B.String(), c.Blocked)
}

func raftFutureChan(f any) uintptr {
	// the future structs keep their channel in a field named responseCh
	rv := reflect.ValueOf(f)
	if rv.Kind() != reflect.Ptr || rv.IsNil() {
		return 0
	}
	fv := rv.Elem().FieldByName("responseCh")
	if !fv.IsValid() || fv.Kind() != reflect.Chan {
		return 0
	}
	return fv.Pointer()
}

func (d *dumper) val(v reflect.Value) {
	d.depth++
	defer func() { d.depth-- }()
	if d.depth > 12 {
		d.b.WriteString("<deep>")
		return
	}
	b := d.b
	switch v.Kind() {
	case reflect.Bool:
		fmt.Fprintf(b, "%t", v.Bool())
	case reflect.Int, reflect.Int8, reflect.Int16, reflect.Int32, reflect.Int64:
		fmt.Fprintf(b, "%d", v.Int())
	case reflect.Uint, reflect.Uint8, reflect.Uint16, reflect.Uint32, reflect.Uint64, reflect.Uintptr:
		fmt.Fprintf(b, "%d", v.Uint())
	case reflect.String:
		fmt.Fprintf(b, "%q", v.String())
	case reflect.Float32, reflect.Float64:
		fmt.Fprintf(b, "%g", v.Float())
	case reflect.Slice:
		if v.Type().Elem().Kind() == reflect.Uint8 {
			fmt.Fprintf(b, "x%x", v.Bytes())
			return
		}
		fallthrough
	case reflect.Array:
		b.WriteByte('[')
		for i := 0; i < v.Len(); i++ {
			d.val(v.Index(i))
			b.WriteByte(',')
		}
		b.WriteByte(']')
	case reflect.Map:
		type kv struct{ k, v string }
		var items []kv
		it := v.MapRange()
		for it.Next() {
			var kb, vb bytes.Buffer
			kd := *d
			kd.b = &kb
			kd.val(it.Key())
			vd := *d
			vd.b = &vb
			vd.val(it.Value())
			items = append(items, kv{kb.String(), vb.String()})
		}
		sort.Slice(items, func(i, j int) bool {
			if items[i].k != items[j].k {
				return items[i].k < items[j].k
			}
			return items[i].v < items[j].v
		})
		b.WriteByte('{')
		for _, it := range items {
			b.WriteString(it.k)
			b.WriteByte(':')
			b.WriteString(it.v)
			b.WriteByte(',')
		}
		b.WriteByte('}')
	case reflect.Ptr:
		if v.IsNil() {
			b.WriteString("nil")
			return
		}
		if v.Type().Elem().Name() == "Cond" {
			b.WriteString("cond")
			return
		}
		if _, ok := d.ptrs[v.Pointer()]; ok {
			// identity of shared pointers inside one node is not used by the
			// library for anything but map keys; print content again
			b.WriteString("&dup")
			return
		}
		d.ptrs[v.Pointer()] = len(d.ptrs)
		if sf, ok := ptrIface(v).(*MemSnapFile); ok {
			b.WriteString(sf.Describe())
			return
		}
		b.WriteByte('&')
		d.val(v.Elem())
	case reflect.Interface:
		if v.IsNil() {
			b.WriteString("nil")
			return
		}
		d.val(v.Elem())
	case reflect.Chan:
		if v.IsNil() {
			b.WriteString("chan:nil")
			return
		}
		if nm, ok := d.chans[v.Pointer()]; ok {
			fmt.Fprintf(b, "chan:%s/%d", nm, v.Len())
		} else {
			fmt.Fprintf(b, "chan:?/%d", v.Len())
		}
	case reflect.Func:
		b.WriteString("func")
	case reflect.Struct:
		t := v.Type()
		if t == timeType {
			d.timeVal(v)
			return
		}
		switch t.Name() {
		case "Mutex":
			if f := v.FieldByName("Held"); f.IsValid() {
				fmt.Fprintf(b, "mu(held=%t)", f.Bool())
				return
			}
		case "WaitGroup":
			if f := v.FieldByName("n"); f.IsValid() {
				fmt.Fprintf(b, "wg(%d)", f.Int())
				return
			}
		}
		b.WriteByte('{')
		for i := 0; i < t.NumField(); i++ {
			fmt.Fprintf(b, "%s=", t.Field(i).Name)
			d.val(v.Field(i))
			b.WriteByte(' ')
		}
		b.WriteByte('}')
	case reflect.UnsafePointer:
		b.WriteString("unsafe")
	default:
		fmt.Fprintf(b, "<%s>", v.Kind())
	}
}

// ptrIface recovers the pointer as an interface even when it was reached
// through unexported fields.
func ptrIface(v reflect.Value) any {
	return reflect.NewAt(v.Type().Elem(), unsafe.Pointer(v.Pointer())).Interface()
}

// timeVal prints a time relative to the node's clock. Untimed mode: only the
// comparisons the library makes matter (in the future or not; older than one
// election timeout or not). Timed mode: exact distance in heartbeat units.
func (d *dumper) timeVal(v reflect.Value) {
	var t time.Time
	if v.CanAddr() {
		t = *(*time.Time)(unsafe.Pointer(v.UnsafeAddr()))
	} else {
		// copy field-wise
		cp := reflect.New(timeType).Elem()
		for i := 0; i < v.NumField(); i++ {
			f := cp.Field(i)
			reflect.NewAt(f.Type(), unsafe.Pointer(f.UnsafeAddr())).Elem().Set(reflect.NewAt(f.Type(), unsafe.Pointer(&[]uint64{0}[0])).Elem())
		}
		d.b.WriteString("t?")
		return
	}
	if t.IsZero() {
		d.b.WriteString("t0")
		return
	}
	now := vtime.NowOf(d.node)
	delta := vtime.ToNs(t) - now
	if d.c.Cfg.Timed {
		q := delta / int64(HB)
		if delta < 0 && delta%int64(HB) != 0 {
			q--
		}
		if q < -16 {
			q = -16
		}
		fmt.Fprintf(d.b, "t%+d", q)
		return
	}
	switch {
	case delta > 0:
		d.b.WriteString("t+")
	case -delta >= int64(ET):
		d.b.WriteString("t-old")
	default:
		d.b.WriteString("t-recent")
	}
}

var _ = binary.BigEndian
