package sim

import (
	"fmt"
	"sort"
	"strings"

	"github.com/jmsadair/raft"
)

// Protobuf marshals maps in random order, so encoded configurations are not
// byte-stable; everything that goes into a state key or a comparison uses
// these canonical renderings instead.

var confCache = map[string]string{}

func CanonConf(data []byte) string {
	if len(data) == 0 {
		return "conf{}"
	}
	if s, ok := confCache[string(data)]; ok {
		return s
	}
	c, err := raft.VerifDecodeConfiguration(data)
	var s string
	if err != nil {
		s = fmt.Sprintf("conf!%x", data)
	} else {
		s = CanonConfiguration(&c)
	}
	if len(confCache) > 4096 {
		confCache = map[string]string{}
	}
	confCache[string(data)] = s
	return s
}

func CanonConfiguration(c *raft.Configuration) string {
	ids := make([]string, 0, len(c.Members))
	for id := range c.Members {
		ids = append(ids, id)
	}
	sort.Strings(ids)
	var b strings.Builder
	fmt.Fprintf(&b, "conf{@%d", c.Index)
	for _, id := range ids {
		v := "n"
		if c.IsVoter[id] {
			v = "v"
		}
		fmt.Fprintf(&b, " %s:%s", id, v)
	}
	b.WriteByte('}')
	return b.String()
}

func CanonEntry(e *raft.LogEntry) string {
	if e.EntryType == raft.ConfigurationEntry {
		return fmt.Sprintf("%d/%d/C/%s", e.Index, e.Term, CanonConf(e.Data))
	}
	return fmt.Sprintf("%d/%d/%d/%s", e.Index, e.Term, e.EntryType, e.Data)
}

func (m *Msg) ReqCanon() string {
	if m.reqCanon != "" {
		return m.reqCanon
	}
	var b strings.Builder
	switch m.Kind {
	case "AE":
		r := &m.AE
		fmt.Fprintf(&b, "AE{t%d l=%s p%d/%d c%d [", r.Term, r.LeaderID, r.PrevLogIndex, r.PrevLogTerm, r.LeaderCommit)
		for _, e := range r.Entries {
			b.WriteString(CanonEntry(e))
			b.WriteByte(' ')
		}
		b.WriteString("]}")
	case "RV":
		r := &m.RV
		fmt.Fprintf(&b, "RV{t%d c=%s l%d/%d pre=%t}", r.Term, r.CandidateID, r.LastLogIndex, r.LastLogTerm, r.Prevote)
	case "IS":
		r := &m.IS
		fmt.Fprintf(&b, "IS{t%d l=%s i%d/%d %s off%d done=%t n%d h%x}", r.Term, r.LeaderID, r.LastIncludedIndex, r.LastIncludedTerm, CanonConf(r.Configuration), r.Offset, r.Done, len(r.Bytes), hash8(r.Bytes))
	}
	m.reqCanon = b.String()
	return m.reqCanon
}

func (m *Msg) RespCanon() string {
	if m.State < MHandled {
		return ""
	}
	if m.Err != nil {
		return "err"
	}
	switch m.Kind {
	case "AE":
		return fmt.Sprintf("t%d ok=%t i%d", m.AEr.Term, m.AEr.Success, m.AEr.Index)
	case "RV":
		return fmt.Sprintf("t%d g=%t", m.RVr.Term, m.RVr.VoteGranted)
	case "IS":
		return fmt.Sprintf("t%d w%d", m.ISr.Term, m.ISr.BytesWritten)
	}
	return ""
}

func hash8(b []byte) uint64 {
	var h uint64 = 14695981039346656037
	for _, c := range b {
		h ^= uint64(c)
		h *= 1099511628211
	}
	return h
}
