package sim

import (
	"fmt"
	"sort"
	"strings"
	"time"

	"github.com/jmsadair/raft"
	"github.com/jmsadair/raft/logging"
	"github.com/jmsadair/raft/verifshim/vsched"
	"github.com/jmsadair/raft/verifshim/vtime"
)

const (
	ET    = 300 * time.Millisecond
	HB    = 50 * time.Millisecond
	Lease = 100 * time.Millisecond
)

// Config describes a simulated cluster.
type Config struct {
	Voters    int    // bootstrapped voters n0..n(V-1)
	Spares    int    // extra nodes started empty (membership runs)
	BootOne   bool   // only n0 is bootstrapped (docs' way); others start empty
	SnapAt    int    // recfsm NeedSnapshot threshold (0 = off)
	SnapNodes []int  // if set, only these nodes take local snapshots (the application decides per node)
	HoldFsm   string // state machine calls that take environment time ("restore", "snapshot"): the call blocks until an "fsm" event
	SnapPad   int
	Timed     bool // global tick clock (C15-C17)
	StoreHook bool // storage calls are crash points
	Asym      bool // one-directional partitions are in the alphabet
	Puppets   bool // only n0 is a real node; the others are played by the harness
	ArmDepth  int  // crash arming reaches the k-th next storage call, k < ArmDepth (default 2)
	FileStore bool // nodes run on the real file-backed storages (C14)
	Dir       string
	Plan      *CrashPlan
	RecordFs  bool
	Rot       int  // timed mode: rotation of the staggered election timeouts
	Cold      bool // spare nodes are constructed but neither bootstrapped nor started
}

type Budget struct {
	Timeouts, Elapses, Ticks, Beats int
	FreeElapses                     int // standalone clock jumps (lease suites)
	Writes, Reads, LeaseReads       int
	Drops, DropReplies, Dups        int
	Crashes, Arms, Restarts         int
	Members                         int
	Reorders                        int // <0: any delivery order is free
	Splits                          int // deliveries whose reply is withheld (<0: every delivery)
	ClientTimeouts                  int
	Cuts                            int // partition changes (isolate / mute / deafen / heal)
	Steps                           int // total events (0 = unbounded, -1 = exhausted)
	MsgSteps                        int // timed mode: >0 enables individual message events
	Lags                            int // timed mode: intervals that pass with messages still in flight
	// Deviations bounds the number of times the environment departs from the
	// default (first enabled, simplest-first) event; <0 = unbounded.
	Deviations int
}

func (b Budget) String() string {
	return fmt.Sprintf("to%d el%d ti%d be%d wr%d rd%d lr%d dr%d drr%d du%d cr%d ar%d rs%d mb%d ro%d sp%d ct%d fe%d dv%d cu%d st%d lg%d ms%d",
		b.Timeouts, b.Elapses, b.Ticks, b.Beats, b.Writes, b.Reads, b.LeaseReads, b.Drops, b.DropReplies, b.Dups, b.Crashes, b.Arms, b.Restarts, b.Members, b.Reorders, b.Splits, b.ClientTimeouts, b.FreeElapses, b.Deviations, b.Cuts, b.Steps, b.Lags, b.MsgSteps)
}

// Event is one environment step.
type Event struct {
	K string `json:"k"`           // kind
	N int    `json:"n,omitempty"` // node
	M string `json:"m,omitempty"` // message id
	A int    `json:"a,omitempty"` // extra argument
	S string `json:"s,omitempty"` // extra string
	D bool   `json:"d,omitempty"` // counts as a deviation from the default event
}

func (e Event) String() string {
	s := e.K
	if e.M != "" {
		s += " " + e.M
	} else {
		s += fmt.Sprintf(" n%d", e.N)
	}
	if e.A != 0 {
		s += fmt.Sprintf(" a=%d", e.A)
	}
	if e.S != "" {
		s += " " + e.S
	}
	return s
}

type Node struct {
	Idx          int
	ID           string
	Addr         string
	Alive        bool
	Inc          int
	R            *raft.Raft
	Tr           *SimTransport
	Fsm          *RecFSM
	Log          *LogDisk
	St           *StateDisk
	Sn           *SnapDisk
	MLog         *MemLog
	Fatal        string // set when the library called os.Exit on this node
	ConstructErr string
	Insts        int // fsm instances created so far
}

// ClientOp is one client request and what became of it.
type ClientOp struct {
	ID        int
	Kind      string // write | read | lease | add | remove
	Node      int
	Data      string
	Target    int // member ops: subject node
	TargetID  string
	Voter     bool // add
	OpFut     raft.Future[raft.OperationResponse]
	CfFut     raft.Future[raft.Configuration]
	Resolved  bool
	Err       error
	Resp      raft.OperationResponse
	Conf      raft.Configuration
	Gone      bool // client gave up (timeout) before resolution
	SendClock int  // network send clock when the operation was invoked
	// membership operations: the submitter at invocation and at resolution
	SubLeader   bool
	SubTerm     uint64
	SubReflects bool // the committed configuration already reflected the change
	ResSeen     bool
	ResTerm     uint64
	ResReflects bool
}

// reflects reports whether the submitter's committed configuration contains
// the change a membership operation asks for.
func (c *Cluster) reflects(op *ClientOp) (bool, uint64, bool, bool) {
	v, ok := c.View(op.Node)
	if !ok {
		return false, 0, false, false
	}
	if !v.HasCommitted {
		return false, v.Term, v.State == raft.Leader, true
	}
	_, member := v.Committed.Members[op.TargetID]
	want := op.Kind == "add"
	return member == want && (!want || v.Committed.IsVoter[op.TargetID] == op.Voter), v.Term, v.State == raft.Leader, true
}

// NoteSubmission records the submitter's view when a membership operation is invoked.
func (c *Cluster) NoteSubmission(op *ClientOp) {
	op.SubReflects, op.SubTerm, op.SubLeader, _ = c.reflects(op)
}

// RefusedCommittedChange returns a membership operation whose future resolved
// with an error although the change it asked for became part of the
// submitter's committed configuration during the term in which the submitter
// accepted it as leader, and no other request of that node asked for the same
// change.
func (c *Cluster) RefusedCommittedChange() *ClientOp {
	for _, op := range c.Ops {
		if op.CfFut == nil || !op.Resolved || op.Err == nil || !op.ResSeen || !op.SubLeader || op.SubReflects || !op.ResReflects || op.ResTerm != op.SubTerm {
			continue
		}
		unique := true
		for _, o := range c.Ops {
			if o != op && o.Node == op.Node && o.Kind == op.Kind && o.TargetID == op.TargetID {
				unique = false
			}
		}
		if unique {
			return op
		}
	}
	return nil
}

// FsmGate is a state machine call that is in progress (Config.HoldFsm): the
// calling goroutine waits, with the node lock released as the library chose,
// until the environment lets the call finish.
type FsmGate struct {
	Node     int
	Kind     string
	Released bool
}

type ArmSpec struct {
	Skip  int
	Phase int
}

type Cluster struct {
	Cfg   Config
	Nodes []*Node
	Net   *Network
	B     Budget
	Ops   []*ClientOp
	Held  []*FsmGate // state machine calls in progress (Config.HoldFsm)
	Hist  []string   // order of invocations and resolutions: "i3", "r3+", "r3-"
	Fsm   []FsmCall
	Armed map[int]*ArmSpec
	// Blocked[a][b]: messages from a to b (requests and replies) are held.
	Blocked [][]bool
	crashQ  []int
	Tick    int64
	// StorageSeen is called for every storage hook (monitors).
	StorageSeen func(node int, op string, phase int)
	Problems    []string // harness-level anomalies (panics in tasks ...)
	PlannedDead map[[2]int]bool
	Dir         string // FileStore: root directory of this execution
	FsCalls     []int  // FileStore: mutating file-system calls per node
	FsTrace     []string
	RecordFs    bool
	CrashedAt   string
	crashDone   bool
	ctlCrash    bool
	crashDone2  bool
	CrashedAt2  string // FileStore: where the second planned crash hit
	// LogObservers see every append/truncate/discard of every node's log.
	LogObservers []func(node int, op string, index uint64, entries []*raft.LogEntry)
	Stagger      bool // election timeouts are staggered per node (timed runs)
	Rot          int
	API          []*APIResult
	views        []*raft.VerifView
	nextWrite    int
}

func nodeID(i int) string   { return fmt.Sprintf("n%d", i) }
func nodeAddr(i int) string { return fmt.Sprintf("127.0.0.%d:8080", i+1) }

func (c *Cluster) addrIndex(a string) int {
	for _, n := range c.Nodes {
		if n.Addr == a {
			return n.Idx
		}
	}
	return -1
}

func (c *Cluster) idIndex(id string) int {
	for _, n := range c.Nodes {
		if n.ID == id {
			return n.Idx
		}
	}
	return -1
}

// New builds and boots a cluster under a fresh scheduler.
func New(cfg Config, b Budget) *Cluster {
	vsched.Reset()
	vtime.Reset()
	c := &Cluster{Cfg: cfg, B: b, Armed: map[int]*ArmSpec{}, Stagger: cfg.Timed, Rot: cfg.Rot, PlannedDead: map[[2]int]bool{}, Dir: cfg.Dir}
	if cfg.FileStore && cfg.Plan != nil {
		c.InstallIntercept(cfg.Plan)
	} else if cfg.FileStore {
		c.InstallIntercept(nil)
	}
	c.Net = &Network{C: c, seq: map[string]int{}}
	c.Blocked = make([][]bool, cfg.Voters+cfg.Spares)
	for i := range c.Blocked {
		c.Blocked[i] = make([]bool, cfg.Voters+cfg.Spares)
	}
	vsched.RandHook = func(n int64) int64 { return c.randomOffset(n) }
	vsched.OnExit = func(node, code int) {
		if node >= 0 && node < len(c.Nodes) {
			if c.PlannedDead[[2]int{node, vsched.CurInc()}] {
				// the process was killed by the injected crash: whatever its
				// remaining goroutines run into is not an abort of the library
				return
			}
			c.Nodes[node].Fatal = fmt.Sprintf("os.Exit(%d)", code)
			c.crashQ = append(c.crashQ, node)
			vsched.Interrupt()
		}
	}
	total := cfg.Voters + cfg.Spares
	for i := 0; i < total; i++ {
		c.Nodes = append(c.Nodes, &Node{Idx: i, ID: nodeID(i), Addr: nodeAddr(i), Log: &LogDisk{}, St: &StateDisk{}, Sn: &SnapDisk{}})
	}
	members := map[string]string{}
	for i := 0; i < cfg.Voters; i++ {
		members[nodeID(i)] = nodeAddr(i)
	}
	for i := 0; i < total; i++ {
		n := c.Nodes[i]
		c.construct(n)
		if i < cfg.Voters && (!cfg.BootOne || i == 0) {
			vsched.CtlNode = i
			m := map[string]string{}
			for k, v := range members {
				m[k] = v
			}
			if cfg.BootOne {
				m = map[string]string{nodeID(0): nodeAddr(0)}
			}
			if err := n.R.Bootstrap(m); err != nil {
				panic("INFRA: bootstrap: " + err.Error())
			}
		}
		if cfg.Cold && i >= cfg.Voters {
			continue
		}
		c.start(n)
	}
	c.settle()
	return c
}

func (c *Cluster) hook(node int, op string, phase int) {
	if c.StorageSeen != nil {
		c.StorageSeen(node, op, phase)
	}
	a := c.Armed[node]
	if a == nil || vsched.Cur() == nil {
		return
	}
	if a.Phase != phase {
		return
	}
	if a.Skip > 0 {
		a.Skip--
		return
	}
	delete(c.Armed, node)
	c.crashQ = append(c.crashQ, node)
	vsched.Interrupt()
	vsched.Block("crashstop", nil, func() bool { return false })
}

func (c *Cluster) construct(n *Node) {
	vsched.CtlNode = n.Idx
	vsched.CtlInc = n.Inc
	vsched.NodeInc[n.Idx] = n.Inc
	thr := c.Cfg.SnapAt
	if c.Cfg.SnapNodes != nil {
		thr = 0
		for _, k := range c.Cfg.SnapNodes {
			if k == n.Idx {
				thr = c.Cfg.SnapAt
			}
		}
	}
	n.Fsm = &RecFSM{Node: n.Idx, Inst: n.Insts, Threshold: thr, Pad: c.Cfg.SnapPad, Rec: func(f FsmCall) { c.Fsm = append(c.Fsm, f) }}
	if c.Cfg.HoldFsm != "" {
		node := n.Idx
		n.Fsm.Point = func(kind string) {
			if !strings.Contains(c.Cfg.HoldFsm, kind) || vsched.Cur() == nil {
				return
			}
			g := &FsmGate{Node: node, Kind: kind}
			c.Held = append(c.Held, g)
			vsched.Block("fsm", g, func() bool { return g.Released })
		}
	}
	n.Insts++
	n.Tr = &SimTransport{net: c.Net, node: n.Idx, inc: n.Inc, addr: n.Addr}
	var hook StorageHook
	if c.Cfg.StoreHook {
		hook = c.hook
	}
	n.MLog = NewMemLog(n.Idx, n.Log, hook)
	n.MLog.Observe = func(node int, op string, index uint64, entries []*raft.LogEntry) {
		for _, f := range c.LogObservers {
			f(node, op, index, entries)
		}
	}
	var lg raft.Log = n.MLog
	var stg raft.StateStorage = &MemState{Disk: n.St, Node: n.Idx, Hook: hook}
	var sng raft.SnapshotStorage = &MemSnapStore{Disk: n.Sn, Node: n.Idx, Hook: hook}
	if c.Cfg.FileStore {
		var err error
		lg, stg, sng, err = c.constructFiles(n)
		if err != nil && c.ctlCrash {
			// the injected crash hit the node while it was starting up: it is
			// simply down again
			c.ctlCrash = false
			n.R = nil
			n.Inc++
			vsched.NodeInc[n.Idx] = n.Inc
			return
		}
		if err != nil {
			n.Fatal = "constructor: " + err.Error()
			n.ConstructErr = err.Error()
			return
		}
	}
	r, err := raft.NewRaft(n.ID, n.Addr, n.Fsm, "",
		raft.WithLog(lg),
		raft.WithStateStorage(stg),
		raft.WithSnapshotStorage(sng),
		raft.WithTransport(n.Tr),
		raft.WithElectionTimeout(ET), raft.WithHeartbeatInterval(HB), raft.WithLeaseDuration(Lease),
		raft.WithLogLevel(logging.Fatal),
	)
	if err != nil && c.ctlCrash {
		c.ctlCrash = false
		n.R = nil
		n.Inc++
		vsched.NodeInc[n.Idx] = n.Inc
		return
	}
	if err != nil {
		// the library refuses to come up over what it left in storage
		n.Fatal = "NewRaft: " + err.Error()
		n.ConstructErr = err.Error()
		return
	}
	n.R = r
}

func (c *Cluster) start(n *Node) {
	if n.R == nil {
		return // construction failed (recorded in n.Fatal)
	}
	vsched.CtlNode = n.Idx
	vsched.CtlInc = n.Inc
	if err := n.R.Start(); err != nil {
		panic("INFRA: Start: " + err.Error())
	}
	n.Alive = true
	vsched.CtlNode = -1
}

const maxSteps = 200000

// settle runs the scheduler to quiescence, performing armed crashes on the way.
func (c *Cluster) settle() {
	defer func() { c.views = nil }()
	for {
		if !vsched.Run(maxSteps) {
			c.Problems = append(c.Problems, "livelock: step cap hit")
			return
		}
		vsched.Interrupted()
		if len(c.crashQ) == 0 {
			// A goroutine waiting in WaitGroup.Wait (Stop) waits for the timer
			// loops of its node, which only notice the shutdown when their
			// sleep ends: real time passes for them, so let those timers fire.
			fired := false
			for _, t := range vsched.Tasks() {
				if t.BlockKind != "waitgroup" {
					continue
				}
				for _, sl := range vtime.LiveSleepers() {
					if sl.Node == t.Node && !sl.Fired {
						sl.Fired = true
						fired = true
					}
				}
			}
			if fired {
				continue
			}
			break
		}
		q := c.crashQ
		c.crashQ = nil
		for _, n := range q {
			if c.Nodes[n].Alive {
				c.crash(n)
			}
		}
	}
	if len(vsched.Panics) > 0 {
		c.Problems = append(c.Problems, vsched.Panics...)
		vsched.Panics = nil
	}
	c.pollFutures()
}

func (c *Cluster) crash(i int) {
	n := c.Nodes[i]
	vsched.Kill(func(t *vsched.Task) bool { return t.Node == i })
	n.Alive = false
	n.R = nil
	n.Tr = nil
	n.Fsm = nil
	n.MLog = nil
	n.Inc++
	vsched.NodeInc[i] = n.Inc
	delete(c.Armed, i)
	held := c.Held[:0:0]
	for _, g := range c.Held {
		if g.Node != i {
			held = append(held, g)
		}
	}
	c.Held = held
	// Requests addressed to the dead process fail; requests it sent stay in
	// the network but nobody waits for the answer.
	for _, m := range append([]*Msg(nil), c.Net.Msgs...) {
		if m.To == i {
			c.Net.fail(m)
		} else if m.From == i && m.State != MSent {
			m.State = MDone
			c.Net.remove(m)
		}
	}
	// futures of operations submitted to the dead process never resolve
	for _, op := range c.Ops {
		if op.Node == i && !op.Resolved && !op.Gone {
			op.Gone = true
			c.Hist = append(c.Hist, fmt.Sprintf("x%d", op.ID))
		}
	}
}

func (c *Cluster) pollFutures() {
	for _, op := range c.Ops {
		if op.Resolved || op.Gone {
			continue
		}
		if op.OpFut != nil {
			if resp, err, ok := raft.VerifPollOperation(op.OpFut); ok {
				op.Resolved, op.Resp, op.Err = true, resp, err
			}
		} else if op.CfFut != nil {
			if conf, err, ok := raft.VerifPollConfiguration(op.CfFut); ok {
				op.Resolved, op.Conf, op.Err = true, conf, err
				op.ResReflects, op.ResTerm, _, op.ResSeen = c.reflects(op)
			}
		}
		if op.Resolved {
			s := "+"
			if op.Err != nil {
				s = "-"
			}
			c.Hist = append(c.Hist, fmt.Sprintf("r%d%s", op.ID, s))
		}
	}
}

// randomOffset answers the library's election-timeout draw (milliseconds above
// the minimum, range [0, n)). Untimed exploration ignores the value (timers
// are fired by events). Timed runs stagger the nodes: node i of k draws
// ((i+Rot) mod k) * n/k, so timeouts are distinct per node and every rotation
// of "who times out first" can be enumerated.
func (c *Cluster) randomOffset(n int64) int64 {
	if !c.Stagger {
		return 0
	}
	k := int64(len(c.Nodes))
	i := int64(vsched.CurNode())
	if i < 0 {
		i = 0
	}
	return ((i + int64(c.Rot)) % k) * (n / k)
}

// View returns the lock-free view of a live node (cached per quiescent point).
func (c *Cluster) View(i int) (raft.VerifView, bool) {
	n := c.Nodes[i]
	if !n.Alive || n.R == nil {
		return raft.VerifView{}, false
	}
	if c.views == nil {
		c.views = make([]*raft.VerifView, len(c.Nodes))
	}
	if c.views[i] == nil {
		v := raft.VerifViewOf(n.R)
		c.views[i] = &v
	}
	return *c.views[i], true
}

func (c *Cluster) sleeper(node int, name string) *vtime.Sleeper {
	for _, s := range vtime.LiveSleepers() {
		if s.Node == node && !s.Fired && strings.Contains(s.Task.Name, name) {
			return s
		}
	}
	return nil
}

// Teardown ends the execution and releases every goroutine.
func (c *Cluster) Teardown() {
	vsched.KillAll()
}

// ---------------------------------------------------------------------------
// Events

// Apply performs one environment event and runs the system to quiescence.
func (c *Cluster) Apply(e Event) error {
	if err := c.Inject1(e); err != nil {
		return err
	}
	c.settle()
	return nil
}

// ApplyPar injects several events at once and then runs to quiescence: their
// consequences are concurrent (SCHED engine).
func (c *Cluster) ApplyPar(es []Event) error {
	for _, e := range es {
		if err := c.Inject1(e); err != nil {
			return err
		}
	}
	c.settle()
	return nil
}

// Inject1 performs the immediate part of an event without running the
// scheduler (except for "rt", which is two steps by definition).
func (c *Cluster) Inject1(e Event) error {
	if e.D {
		c.B.Deviations--
	}
	if c.B.Steps > 0 {
		c.B.Steps--
		if c.B.Steps == 0 {
			c.B.Steps = -1
		}
	}
	switch e.K {
	case "deliver":
		if c.Cfg.Timed && c.B.MsgSteps > 0 {
			c.B.MsgSteps--
		}
		m := c.Net.find(e.M)
		if m == nil || m.State != MSent {
			return fmt.Errorf("deliver: no such message %s", e.M)
		}
		if e.A&1 == 1 {
			c.B.Reorders--
		}
		if e.A&2 == 2 {
			c.B.Elapses--
			vtime.Advance(m.To, 2*ET)
		}
		if c.B.Splits > 0 {
			c.B.Splits--
		}
		c.Net.runHandler(m, false)
	case "reply":
		m := c.Net.find(e.M)
		if m == nil || m.State != MHandled {
			return fmt.Errorf("reply: no such message %s", e.M)
		}
		m.State = MDone
		m.Replied = true
		c.Net.remove(m)
		if c.Net.OnReply != nil {
			c.Net.OnReply(m)
		}
	case "rt": // deliver and reply in one step
		if c.Cfg.Timed && c.B.MsgSteps > 0 {
			c.B.MsgSteps--
		}
		m := c.Net.find(e.M)
		if m == nil || m.State != MSent {
			return fmt.Errorf("rt: no such message %s", e.M)
		}
		if e.A&1 == 1 {
			c.B.Reorders--
		}
		if e.A&2 == 2 {
			c.B.Elapses--
			vtime.Advance(m.To, 2*ET)
		}
		c.Net.runHandler(m, false)
		c.settle()
		if m.State == MHandled && !c.Blocked[m.To][m.From] {
			m.State = MDone
			m.Replied = true
			c.Net.remove(m)
			if c.Net.OnReply != nil {
				c.Net.OnReply(m)
			}
		}
	case "drop":
		m := c.Net.find(e.M)
		if m == nil || m.State != MSent {
			return fmt.Errorf("drop: no such message %s", e.M)
		}
		c.B.Drops--
		c.Net.fail(m)
	case "dropreply":
		m := c.Net.find(e.M)
		if m == nil || m.State != MHandled {
			return fmt.Errorf("dropreply: no such message %s", e.M)
		}
		c.B.DropReplies--
		c.Net.fail(m)
	case "dup":
		m := c.Net.find(e.M)
		if m == nil || m.State == MHandling {
			return fmt.Errorf("dup: no such message %s", e.M)
		}
		c.B.Dups--
		m.Dups++
		c.Net.runHandler(m, true)
	case "beat":
		s := c.sleeper(e.N, "heartbeatLoop")
		if s == nil {
			return fmt.Errorf("beat: no heartbeat sleeper on n%d", e.N)
		}
		c.B.Beats--
		s.Fired = true
	case "tick":
		s := c.sleeper(e.N, "electionTicker")
		if s == nil {
			return fmt.Errorf("tick: no ticker sleeper on n%d", e.N)
		}
		c.B.Ticks--
		s.Fired = true
	case "elapse":
		c.B.FreeElapses--
		vtime.Advance(e.N, 2*ET)
	case "timeout":
		s := c.sleeper(e.N, "electionTicker")
		if s == nil {
			return fmt.Errorf("timeout: no ticker sleeper on n%d", e.N)
		}
		c.B.Timeouts--
		vtime.Advance(e.N, 2*ET)
		s.Fired = true
	case "write", "read", "lease":
		n := c.Nodes[e.N]
		if !n.Alive {
			return fmt.Errorf("%s: n%d is down", e.K, e.N)
		}
		op := &ClientOp{ID: len(c.Ops), Kind: e.K, Node: e.N, SendClock: c.Net.Order()}
		var typ raft.OperationType
		switch e.K {
		case "write":
			c.B.Writes--
			op.Data = fmt.Sprintf("w%d", c.nextWrite)
			c.nextWrite++
			typ = raft.Replicated
		case "read":
			c.B.Reads--
			op.Data = fmt.Sprintf("r%d", op.ID)
			typ = raft.LinearizableReadOnly
		case "lease":
			c.B.LeaseReads--
			op.Data = fmt.Sprintf("l%d", op.ID)
			typ = raft.LeaseBasedReadOnly
		}
		c.Ops = append(c.Ops, op)
		c.Hist = append(c.Hist, fmt.Sprintf("i%d", op.ID))
		r := n.R
		vsched.Spawn(e.N, "client:"+e.K, func() {
			op.OpFut = r.SubmitOperation([]byte(op.Data), typ, time.Hour)
		})
	case "add", "remove":
		n := c.Nodes[e.N]
		if !n.Alive {
			return fmt.Errorf("%s: n%d is down", e.K, e.N)
		}
		c.B.Members--
		op := &ClientOp{ID: len(c.Ops), Kind: e.K, Node: e.N, Target: e.A, Voter: e.S == "voter", TargetID: c.Nodes[e.A].ID}
		c.NoteSubmission(op)
		c.Ops = append(c.Ops, op)
		c.Hist = append(c.Hist, fmt.Sprintf("i%d", op.ID))
		r := n.R
		tgt := c.Nodes[e.A]
		vsched.Spawn(e.N, "client:"+e.K, func() {
			if e.K == "add" {
				op.CfFut = r.AddServer(tgt.ID, tgt.Addr, op.Voter, time.Hour)
			} else {
				op.CfFut = r.RemoveServer(tgt.ID, time.Hour)
			}
		})
	case "giveup":
		op := c.Ops[e.A]
		if op.Resolved || op.Gone {
			return fmt.Errorf("giveup: op %d already finished", e.A)
		}
		c.B.ClientTimeouts--
		op.Gone = true
		c.Hist = append(c.Hist, fmt.Sprintf("x%d", op.ID))
	case "isolate", "mute", "deafen":
		c.B.Cuts--
		for j := range c.Nodes {
			if j == e.N {
				continue
			}
			if e.K != "deafen" {
				c.Blocked[e.N][j] = true
			}
			if e.K != "mute" {
				c.Blocked[j][e.N] = true
			}
		}
	case "cut":
		c.B.Cuts--
		c.Blocked[e.N][e.A] = true
		c.Blocked[e.A][e.N] = true
	case "heal":
		c.B.Cuts--
		for i := range c.Blocked {
			for j := range c.Blocked[i] {
				c.Blocked[i][j] = false
			}
		}
	case "crash":
		if !c.Nodes[e.N].Alive {
			return fmt.Errorf("crash: n%d is down", e.N)
		}
		c.B.Crashes--
		c.crash(e.N)
	case "arm":
		if !c.Nodes[e.N].Alive {
			return fmt.Errorf("arm: n%d is down", e.N)
		}
		c.B.Arms--
		if c.Cfg.FileStore {
			c.Armed[e.N] = &ArmSpec{Skip: e.A, Phase: ArmFs}
		} else {
			c.Armed[e.N] = &ArmSpec{Skip: e.A / 2, Phase: e.A % 2}
		}
	case "restart":
		n := c.Nodes[e.N]
		if n.Alive {
			return fmt.Errorf("restart: n%d is up", e.N)
		}
		c.B.Restarts--
		c.construct(n)
		c.start(n)
	case "inj", "ans":
		if err := c.applyPuppet(e); err != nil {
			return err
		}
	case "fsm":
		// the oldest state machine call in progress on the node finishes
		done := false
		for k, g := range c.Held {
			if g.Node == e.N {
				g.Released = true
				c.Held = append(c.Held[:k:k], c.Held[k+1:]...)
				done = true
				break
			}
		}
		if !done {
			return fmt.Errorf("fsm: no state machine call in progress on n%d", e.N)
		}
	case "flush":
		// deliver every deliverable message and reply, oldest first, until the
		// network is quiet (scripted scenarios)
		c.deliverAll()
	case "adv", "lag":
		if e.K == "lag" {
			c.B.Lags--
		}
		// timed mode: one heartbeat interval of global time. "tick" first
		// delivers every deliverable message (oldest first, request and reply),
		// "lag" lets the interval pass with the messages still in flight (they
		// are then one tick old and must be delivered before the next advance).
		if e.K == "adv" {
			c.deliverAll()
		}
		c.Tick++
		for i := range c.Nodes {
			vtime.Advance(i, HB)
		}
		for _, sl := range vtime.LiveSleepers() {
			if !sl.Fired && sl.Deadline <= vtime.ClockOf(sl.Node).Ns {
				sl.Fired = true
			}
		}
	case "api":
		if err := c.applyAPI(e); err != nil {
			return err
		}
	case "stop", "statusq":
		n := c.Nodes[e.N]
		if !n.Alive {
			return fmt.Errorf("%s: n%d is down", e.K, e.N)
		}
		r := n.R
		if e.K == "stop" {
			vsched.Spawn(e.N, "client:stop", func() { r.Stop() })
		} else {
			vsched.Spawn(e.N, "client:status", func() { _ = r.Status(); _ = r.Configuration() })
		}
	default:
		return fmt.Errorf("unknown event kind %q", e.K)
	}
	return nil
}

// reqClass identifies messages that are interchangeable.
func (m *Msg) class() string {
	return fmt.Sprintf("%d>%d:%s:%d:%s:%s", m.From, m.To, m.Kind, m.State, m.ReqCanon(), m.RespCanon())
}

// Enabled lists the environment events possible now, simplest first, and
// applies the deviation bound: the first event is the default, any other one
// costs a deviation.
func (c *Cluster) Enabled() []Event {
	if c.B.Steps < 0 {
		return nil
	}
	ev := c.enabledAll()
	if c.B.Deviations < 0 || len(ev) <= 1 {
		return ev
	}
	if c.B.Deviations == 0 {
		return ev[:1]
	}
	for i := 1; i < len(ev); i++ {
		ev[i].D = true
	}
	return ev
}

// deliverAll hands every deliverable message to its target and every
// available reply to its sender, oldest first, until nothing is deliverable.
func (c *Cluster) deliverAll() {
	for round := 0; round < 10000; round++ {
		var pick *Msg
		for _, m := range c.Net.Msgs {
			ok := false
			switch m.State {
			case MSent:
				ok = !c.Blocked[m.From][m.To]
			case MHandled:
				ok = !c.Blocked[m.To][m.From]
			}
			if ok && (pick == nil || m.Order < pick.Order) {
				pick = m
			}
		}
		if pick == nil {
			return
		}
		if pick.State == MSent {
			c.Net.runHandler(pick, false)
			c.settle()
		}
		if pick.State == MHandled && !c.Blocked[pick.To][pick.From] {
			pick.State = MDone
			pick.Replied = true
			c.Net.remove(pick)
			if c.Net.OnReply != nil {
				c.Net.OnReply(pick)
			}
			c.settle()
		}
		if pick.State == MSent {
			// target down or handler unavailable: runHandler failed it
			continue
		}
	}
	c.Problems = append(c.Problems, "livelock: message delivery does not terminate")
}

// timedEnabled is the alphabet of timed suites (C15-C17): time advances in
// heartbeat intervals; messages are prompt unless a link is cut.
func (c *Cluster) timedEnabled() []Event {
	ev := []Event{{K: "adv"}}
	overdue := false
	pending := false
	for _, m := range c.Net.Msgs {
		deliverable := (m.State == MSent && !c.Blocked[m.From][m.To]) || (m.State == MHandled && !c.Blocked[m.To][m.From] && c.Net.senderAlive(m))
		if deliverable {
			pending = true
			if c.Tick-m.SentAt >= 1 {
				overdue = true
			}
		}
	}
	if pending && !overdue && c.B.Lags > 0 {
		ev = append(ev, Event{K: "lag"})
	}
	return ev
}

func (c *Cluster) enabledAll() []Event {
	ev := c.enabledAll1()
	if len(c.Held) == 0 {
		return ev
	}
	// a state machine call in progress finishes at once by default; anything
	// else that happens first is a deviation
	var first []Event
	seen := map[int]bool{}
	for _, g := range c.Held {
		if !seen[g.Node] {
			seen[g.Node] = true
			first = append(first, Event{K: "fsm", N: g.Node})
		}
	}
	return append(first, ev...)
}

func (c *Cluster) enabledAll1() []Event {
	var ev []Event
	if c.Cfg.Puppets {
		ev = c.puppetEnabled()
	}
	if c.Cfg.Timed {
		ev = c.timedEnabled()
	}
	msgs := append([]*Msg(nil), c.Net.Msgs...)
	sort.Slice(msgs, func(i, j int) bool { return msgs[i].Order < msgs[j].Order })
	seen := map[string]bool{}
	uniq := msgs[:0:0]
	for _, m := range msgs {
		k := m.class()
		if seen[k] {
			continue
		}
		seen[k] = true
		uniq = append(uniq, m)
	}
	// oldest request per destination is free; overtaking costs a reorder unit
	oldestTo := map[int]int{}
	for _, m := range msgs {
		if m.State == MSent && !c.Blocked[m.From][m.To] {
			if _, ok := oldestTo[m.To]; !ok {
				oldestTo[m.To] = m.Order
			}
		}
	}
	for _, m := range uniq {
		if c.Cfg.Puppets || (c.Cfg.Timed && c.B.MsgSteps <= 0) {
			break
		}
		if m.State == MSent && !c.Blocked[m.From][m.To] {
			a := 0
			if c.B.Reorders >= 0 && oldestTo[m.To] != m.Order {
				if c.B.Reorders == 0 {
					continue
				}
				a = 1
			}
			// A vote request reads the target's clock (stickiness, lease):
			// the variant with bit 2 lets that clock pass an election timeout
			// first. Elapsing is only observable at such readers, so binding it
			// to them loses nothing (DESIGN 2.4, lever 1).
			variants := []int{a}
			if m.Kind == "RV" && c.B.Elapses > 0 && c.Nodes[m.To].Alive && !c.clockOpen(m.To) {
				variants = []int{a | 2, a}
			}
			for _, va := range variants {
				if c.B.Splits >= 0 && c.Net.senderAlive(m) {
					ev = append(ev, Event{K: "rt", M: m.ID, A: va})
				}
				if c.B.Splits != 0 || !c.Net.senderAlive(m) {
					ev = append(ev, Event{K: "deliver", M: m.ID, A: va})
				}
			}
		}
	}
	for _, m := range uniq {
		if c.Cfg.Timed && c.B.MsgSteps <= 0 {
			break
		}
		if m.State == MHandled && c.Net.senderAlive(m) && !c.Blocked[m.To][m.From] {
			ev = append(ev, Event{K: "reply", M: m.ID})
		}
	}
	views := make([]raft.VerifView, len(c.Nodes))
	for i := range c.Nodes {
		views[i], _ = c.View(i)
	}
	for i, n := range c.Nodes {
		if !n.Alive || views[i].State != raft.Leader {
			continue
		}
		if c.B.Writes > 0 {
			ev = append(ev, Event{K: "write", N: i})
		}
		if c.B.Reads > 0 && !c.hasPendingRead(i) {
			ev = append(ev, Event{K: "read", N: i})
		}
		if c.B.LeaseReads > 0 && !c.hasPendingRead(i) {
			ev = append(ev, Event{K: "lease", N: i})
		}
	}
	for i, n := range c.Nodes {
		if !n.Alive {
			continue
		}
		if c.B.Beats > 0 && views[i].State != raft.Follower && c.sleeper(i, "heartbeatLoop") != nil {
			ev = append(ev, Event{K: "beat", N: i})
		}
	}
	for i, n := range c.Nodes {
		if !n.Alive {
			continue
		}
		v := views[i]
		canCampaign := v.State != raft.Leader && v.HasConfiguration && v.Configuration.IsVoter[n.ID]
		if c.B.Timeouts > 0 && canCampaign && c.sleeper(i, "electionTicker") != nil {
			ev = append(ev, Event{K: "timeout", N: i})
		}
	}
	for i, n := range c.Nodes {
		if n.Alive && c.B.FreeElapses > 0 {
			ev = append(ev, Event{K: "elapse", N: i})
		}
	}
	for i, n := range c.Nodes {
		if n.Alive && c.B.Ticks > 0 && views[i].State != raft.Leader && c.sleeper(i, "electionTicker") != nil {
			ev = append(ev, Event{K: "tick", N: i})
		}
	}
	if c.B.Members > 0 && !c.Cfg.Puppets {
		for i, n := range c.Nodes {
			if !n.Alive || views[i].State != raft.Leader || !views[i].HasConfiguration {
				continue
			}
			conf := views[i].Configuration
			for j, o := range c.Nodes {
				_, member := conf.Members[o.ID]
				switch {
				case !member:
					ev = append(ev, Event{K: "add", N: i, A: j, S: "nonvoter"}, Event{K: "add", N: i, A: j, S: "voter"})
				case !conf.IsVoter[o.ID]:
					ev = append(ev, Event{K: "add", N: i, A: j, S: "voter"}, Event{K: "remove", N: i, A: j})
				default:
					ev = append(ev, Event{K: "remove", N: i, A: j})
				}
			}
		}
	}
	if c.B.ClientTimeouts > 0 {
		for _, op := range c.Ops {
			if !op.Resolved && !op.Gone {
				ev = append(ev, Event{K: "giveup", A: op.ID})
			}
		}
	}
	// deviations
	if c.B.Drops > 0 {
		for _, m := range uniq {
			if m.State == MSent && c.Net.senderAlive(m) {
				ev = append(ev, Event{K: "drop", M: m.ID})
			}
		}
	}
	if c.B.DropReplies > 0 {
		for _, m := range uniq {
			if m.State == MHandled && c.Net.senderAlive(m) {
				ev = append(ev, Event{K: "dropreply", M: m.ID})
			}
		}
	}
	if c.B.Dups > 0 {
		for _, m := range uniq {
			if (m.State == MSent || m.State == MHandled) && m.Dups == 0 {
				ev = append(ev, Event{K: "dup", M: m.ID})
			}
		}
	}
	if c.B.Cuts > 0 && len(c.Nodes) > 1 {
		any := false
		for i := range c.Blocked {
			for j := range c.Blocked[i] {
				any = any || c.Blocked[i][j]
			}
		}
		if any {
			ev = append(ev, Event{K: "heal"})
		}
		for i, n := range c.Nodes {
			if !n.Alive {
				continue
			}
			out, in := true, true
			for j := range c.Nodes {
				if j != i {
					out = out && c.Blocked[i][j]
					in = in && c.Blocked[j][i]
				}
			}
			if !out || !in {
				ev = append(ev, Event{K: "isolate", N: i})
			}
			if c.Cfg.Asym {
				if !out {
					ev = append(ev, Event{K: "mute", N: i})
				}
				if !in {
					ev = append(ev, Event{K: "deafen", N: i})
				}
			}
		}
	}
	for i, n := range c.Nodes {
		if n.Alive && c.B.Crashes > 0 {
			ev = append(ev, Event{K: "crash", N: i})
		}
	}
	if (c.Cfg.StoreHook || c.Cfg.FileStore) && c.B.Arms > 0 {
		for i, n := range c.Nodes {
			if n.Alive && c.Armed[i] == nil {
				depth := c.Cfg.ArmDepth
				if depth == 0 {
					depth = 2
				}
				// in-memory storages: before/after each of the next `depth` storage
				// calls; real storages: before each of the next 2*depth mutating
				// file-system calls
				for a := 0; a < 2*depth; a++ {
					ev = append(ev, Event{K: "arm", N: i, A: a})
				}
			}
		}
	}
	for i, n := range c.Nodes {
		if !n.Alive && c.B.Restarts > 0 && !(c.Cfg.Puppets && i > 0) {
			ev = append(ev, Event{K: "restart", N: i})
		}
	}
	return ev
}

// clockOpen reports whether node's stickiness guard and lease are already
// expired on its own clock (an elapse would change nothing).
func (c *Cluster) clockOpen(node int) bool {
	v, ok := c.View(node)
	if !ok {
		return true
	}
	now := vtime.NowOf(node)
	if now-vtime.ToNs(v.LastContact) < int64(ET) {
		return false
	}
	if !v.LeaseExpiration.IsZero() && now < vtime.ToNs(v.LeaseExpiration) {
		return false
	}
	return true
}

// Tags classifies the current state for coverage counters.
func (c *Cluster) Tags() []string {
	var t []string
	leaders, applied, down := 0, 0, 0
	maxTerm := uint64(0)
	for i, n := range c.Nodes {
		if !n.Alive {
			down++
			continue
		}
		v, _ := c.View(i)
		if v.State == raft.Leader {
			leaders++
		}
		if v.Term > maxTerm {
			maxTerm = v.Term
		}
		if len(n.Fsm.List) > 0 {
			applied++
		}
	}
	if leaders > 0 {
		t = append(t, "leader_present")
	}
	if leaders > 1 {
		t = append(t, "two_leaders_different_terms")
	}
	if applied >= 2 {
		t = append(t, "op_applied_on_2plus_nodes")
	}
	if down > 0 {
		t = append(t, "node_down")
	}
	if maxTerm >= 3 {
		t = append(t, "term_3plus")
	}
	for _, n := range c.Nodes {
		if n.Inc > 0 && n.Alive {
			t = append(t, "restarted_node_up")
			break
		}
	}
	for _, op := range c.Ops {
		if op.Resolved && op.Err == nil {
			t = append(t, "op_acked")
			break
		}
	}
	for i := range c.Nodes {
		if v, ok := c.View(i); ok && (v.State == raft.PreCandidate || v.State == raft.Candidate) {
			leaderElsewhere := false
			for j := range c.Nodes {
				if w, ok := c.View(j); ok && j != i && w.State == raft.Leader {
					leaderElsewhere = true
				}
			}
			if leaderElsewhere {
				t = append(t, "minority_campaigned")
				break
			}
		}
	}
	for i := range c.Nodes {
		if v, ok := c.View(i); ok && v.HasCommitted && v.Committed.Index > 1 {
			t = append(t, "config_changed")
			break
		}
	}
	for _, op := range c.Ops {
		if op.Resolved && op.Err == nil && (op.Kind == "read" || op.Kind == "lease") {
			t = append(t, "read_served")
			break
		}
	}
	return t
}

func (c *Cluster) hasPendingRead(node int) bool {
	for _, op := range c.Ops {
		if op.Node == node && (op.Kind == "read" || op.Kind == "lease") && !op.Resolved && !op.Gone {
			return true
		}
	}
	return false
}

// ParseEvent parses the textual form produced by Event.String (seeds and
// scripts are written in it).
func ParseEvent(s string) (Event, error) {
	f := strings.Fields(s)
	if len(f) == 0 {
		return Event{}, fmt.Errorf("empty event")
	}
	e := Event{K: f[0]}
	for _, w := range f[1:] {
		switch {
		case strings.HasPrefix(w, "a="):
			fmt.Sscan(w[2:], &e.A)
		case w == "!":
			e.D = true
		case len(w) > 1 && w[0] == 'n' && w[1] >= '0' && w[1] <= '9' && !strings.Contains(w, ">"):
			fmt.Sscan(w[1:], &e.N)
		case strings.Contains(w, ">"):
			e.M = w
		default:
			e.S = w
		}
	}
	return e, nil
}

func MustParse(lines ...string) []Event {
	var out []Event
	for _, l := range lines {
		e, err := ParseEvent(l)
		if err != nil {
			panic(err)
		}
		out = append(out, e)
	}
	return out
}
