// Package codec is the CODEC engine (DESIGN 3, C19): every message of a
// stated finite field-value domain is sent through two real raft.NewTransport
// instances on loopback and compared field-wise with what the handler on the
// other side received (and what Send* returned with what the handler
// answered); every record of the same domains is written through the real
// file storages and read back through a fresh instance.
//
// Nothing here samples: every part is a mixed-radix enumeration of a product
// of finite value sets, or a written-out covering design over such a product.
package codec

import (
	"encoding/json"
	"math"

	"github.com/jmsadair/raft"
)

const (
	KiB = 1024
	MiB = 1024 * 1024
	// snapshotChunk mirrors raft.go:39 (snapshotChunkSize); only used to pick
	// boundary payload sizes and by the sender emulation.
	snapshotChunk = 32 * KiB
	grpcDefault   = 4 * MiB
)

// Value domains (DESIGN C19).
var (
	U64 = []uint64{0, 1, 1 << 32, math.MaxUint64}
	// int64 fields additionally take -1 and min: negative varints are the
	// 10-byte corner of the wire format.
	I64   = []int64{0, 1, 1 << 32, math.MaxInt64, -1, math.MinInt64}
	IDs   = []string{"", "a", "ñ✓漢"}
	Types = []uint32{0, 1, 2} // NoOp, Operation, Configuration (the .proto enum names only 0 and 1)
)

// Bytes describes a byte slice of the domain: nil, or the first Len bytes of
// the fixed pattern (Len 0 and !Nil is the empty non-nil slice).
type Bytes struct {
	Nil bool `json:"nil,omitempty"`
	Len int  `json:"len"`
}

var SmallBytes = []Bytes{{Nil: true}, {Len: 0}, {Len: 1}, {Len: KiB}}

// Snapshot payload sizes for InstallSnapshotRequest.Bytes.
var (
	snapSmall = []Bytes{{Nil: true}, {Len: 0}, {Len: 1}, {Len: snapshotChunk - 1}, {Len: snapshotChunk}, {Len: snapshotChunk + 1}}
	snapLarge = []Bytes{{Len: 4*MiB - 64*KiB}, {Len: 4*MiB + 1}, {Len: 8 * MiB}}
)

// pattern is the read-only source of every payload: position-dependent, not
// periodic in 256 or 65536, first byte 0xFF, contains every byte value.
var pattern = func() []byte {
	b := make([]byte, 8*MiB+64*KiB)
	for j := range b {
		b[j] = ^(byte(j) ^ byte(j>>8) ^ byte(j>>16))
	}
	return b
}()

func (b Bytes) Make() []byte {
	if b.Nil {
		return nil
	}
	if b.Len == 0 {
		return []byte{}
	}
	return pattern[:b.Len:b.Len]
}

// ---- message specifications (JSON: replay files and evidence samples) ----

type Entry struct {
	Index  uint64 `json:"index"`
	Term   uint64 `json:"term"`
	Offset int64  `json:"offset"`
	Type   uint32 `json:"type"`
	Data   Bytes  `json:"data"`
}

type AEReq struct {
	LeaderID     string  `json:"leader_id"`
	Term         uint64  `json:"term"`
	LeaderCommit uint64  `json:"leader_commit"`
	PrevLogIndex uint64  `json:"prev_log_index"`
	PrevLogTerm  uint64  `json:"prev_log_term"`
	NilEntries   bool    `json:"nil_entries,omitempty"`
	Entries      []Entry `json:"entries"`
}

type AEResp struct {
	Term    uint64 `json:"term"`
	Success bool   `json:"success"`
	Index   uint64 `json:"index"`
}

type RVReq struct {
	CandidateID  string `json:"candidate_id"`
	Term         uint64 `json:"term"`
	LastLogIndex uint64 `json:"last_log_index"`
	LastLogTerm  uint64 `json:"last_log_term"`
	Prevote      bool   `json:"prevote"`
}

type RVResp struct {
	Term        uint64 `json:"term"`
	VoteGranted bool   `json:"vote_granted"`
}

type ISReq struct {
	LeaderID          string `json:"leader_id"`
	Term              uint64 `json:"term"`
	LastIncludedIndex uint64 `json:"last_included_index"`
	LastIncludedTerm  uint64 `json:"last_included_term"`
	Configuration     Bytes  `json:"configuration"`
	Bytes             Bytes  `json:"bytes"`
	Offset            int64  `json:"offset"`
	Done              bool   `json:"done"`
}

type ISResp struct {
	Term         uint64 `json:"term"`
	BytesWritten int64  `json:"bytes_written"`
}

// RPCCase is one RPC: a request and the response the handler will answer.
type RPCCase struct {
	RPC    string  `json:"rpc"` // AppendEntries | RequestVote | InstallSnapshot
	Dir    string  `json:"dir"` // a->b | b->a
	AEReq  *AEReq  `json:"append_entries_request,omitempty"`
	AEResp *AEResp `json:"append_entries_response,omitempty"`
	RVReq  *RVReq  `json:"request_vote_request,omitempty"`
	RVResp *RVResp `json:"request_vote_response,omitempty"`
	ISReq  *ISReq  `json:"install_snapshot_request,omitempty"`
	ISResp *ISResp `json:"install_snapshot_response,omitempty"`
}

func (c *RPCCase) JSON() json.RawMessage {
	b, _ := json.Marshal(c)
	return b
}

func (e Entry) Make() *raft.LogEntry {
	return &raft.LogEntry{Index: e.Index, Term: e.Term, Offset: e.Offset, Data: e.Data.Make(), EntryType: raft.LogEntryType(e.Type)}
}

func (r *AEReq) Make() raft.AppendEntriesRequest {
	q := raft.AppendEntriesRequest{LeaderID: r.LeaderID, Term: r.Term, LeaderCommit: r.LeaderCommit, PrevLogIndex: r.PrevLogIndex, PrevLogTerm: r.PrevLogTerm}
	if !r.NilEntries {
		q.Entries = make([]*raft.LogEntry, 0, len(r.Entries))
	}
	for _, e := range r.Entries {
		q.Entries = append(q.Entries, e.Make())
	}
	return q
}

func (r *AEResp) Make() raft.AppendEntriesResponse {
	return raft.AppendEntriesResponse{Term: r.Term, Success: r.Success, Index: r.Index}
}

func (r *RVReq) Make() raft.RequestVoteRequest {
	return raft.RequestVoteRequest{CandidateID: r.CandidateID, Term: r.Term, LastLogIndex: r.LastLogIndex, LastLogTerm: r.LastLogTerm, Prevote: r.Prevote}
}

func (r *RVResp) Make() raft.RequestVoteResponse {
	return raft.RequestVoteResponse{Term: r.Term, VoteGranted: r.VoteGranted}
}

func (r *ISReq) Make() raft.InstallSnapshotRequest {
	return raft.InstallSnapshotRequest{LeaderID: r.LeaderID, Term: r.Term, LastIncludedIndex: r.LastIncludedIndex, LastIncludedTerm: r.LastIncludedTerm,
		Configuration: r.Configuration.Make(), Bytes: r.Bytes.Make(), Offset: r.Offset, Done: r.Done}
}

func (r *ISResp) Make() raft.InstallSnapshotResponse {
	return raft.InstallSnapshotResponse{Term: r.Term, BytesWritten: r.BytesWritten}
}

// ---- mixed-radix enumeration ----

type digits struct{ i uint64 }

func (d *digits) next(n int) int {
	r := int(d.i % uint64(n))
	d.i /= uint64(n)
	return r
}

// Sizes of the elementary products.
var (
	nEntry  = uint64(len(U64) * len(U64) * len(SmallBytes) * len(Types))                         // 192
	nAEHead = uint64(len(IDs) * len(U64) * len(U64) * len(U64) * len(U64))                       // 768
	nAEResp = uint64(len(U64) * 2 * len(U64))                                                    // 32
	nRVReq  = uint64(len(IDs) * len(U64) * len(U64) * len(U64) * 2)                              // 384
	nRVResp = uint64(len(U64) * 2)                                                               // 8
	nISHead = uint64(len(IDs) * len(U64) * len(U64) * len(U64) * len(SmallBytes) * len(I64) * 2) // 9216
	nISResp = uint64(len(U64) * len(I64))                                                        // 24
)

// entryAt: Index x Term x Data x Type. Offset is NOT part of the product: the
// library's converter (requests.go:104-117 makeProtoEntries) does not put it
// on the wire; it is set to a non-zero domain value so that "it silently
// travels" would also be visible, and it is never compared on the RPC path.
func entryAt(k uint64) Entry {
	d := digits{k}
	e := Entry{}
	e.Type = Types[d.next(len(Types))]
	e.Data = SmallBytes[d.next(len(SmallBytes))]
	e.Term = U64[d.next(len(U64))]
	e.Index = U64[d.next(len(U64))]
	e.Offset = I64[1+k%uint64(len(I64)-1)]
	return e
}

func aeHeadAt(h uint64) AEReq {
	d := digits{h}
	r := AEReq{}
	r.LeaderID = IDs[d.next(len(IDs))]
	r.Term = U64[d.next(len(U64))]
	r.LeaderCommit = U64[d.next(len(U64))]
	r.PrevLogIndex = U64[d.next(len(U64))]
	r.PrevLogTerm = U64[d.next(len(U64))]
	return r
}

// Entry lists of length <= 1: nil list, empty list, each single entry.
var nList1 = 2 + nEntry // 194

func list1At(l uint64, r *AEReq) {
	switch {
	case l == 0:
		r.NilEntries = true
	case l == 1:
		r.Entries = []Entry{}
	default:
		r.Entries = []Entry{entryAt(l - 2)}
	}
}

// Entry lists of length exactly 2: every ordered pair.
var nList2 = nEntry * nEntry // 36864

func list2At(l uint64, r *AEReq) {
	r.Entries = []Entry{entryAt(l % nEntry), entryAt(l / nEntry)}
}

func aeRespAt(i uint64) AEResp {
	d := digits{i % nAEResp}
	r := AEResp{}
	r.Success = d.next(2) == 1
	r.Term = U64[d.next(len(U64))]
	r.Index = U64[d.next(len(U64))]
	return r
}

func rvReqAt(i uint64) RVReq {
	d := digits{i}
	r := RVReq{}
	r.CandidateID = IDs[d.next(len(IDs))]
	r.Prevote = d.next(2) == 1
	r.Term = U64[d.next(len(U64))]
	r.LastLogIndex = U64[d.next(len(U64))]
	r.LastLogTerm = U64[d.next(len(U64))]
	return r
}

func rvRespAt(i uint64) RVResp {
	d := digits{i % nRVResp}
	r := RVResp{}
	r.VoteGranted = d.next(2) == 1
	r.Term = U64[d.next(len(U64))]
	return r
}

// isHeadAt: every field of InstallSnapshotRequest except Bytes.
func isHeadAt(h uint64) ISReq {
	d := digits{h}
	r := ISReq{}
	r.LeaderID = IDs[d.next(len(IDs))]
	r.Done = d.next(2) == 1
	r.Configuration = SmallBytes[d.next(len(SmallBytes))]
	r.Offset = I64[d.next(len(I64))]
	r.Term = U64[d.next(len(U64))]
	r.LastIncludedIndex = U64[d.next(len(U64))]
	r.LastIncludedTerm = U64[d.next(len(U64))]
	return r
}

func isRespAt(i uint64) ISResp {
	d := digits{i % nISResp}
	r := ISResp{}
	r.BytesWritten = I64[d.next(len(I64))]
	r.Term = U64[d.next(len(U64))]
	return r
}

// rot decorrelates the cyclic response index from the low-order digits of the
// request index: the response advances by one every request and by one more
// every full cycle.
func rot(i, n uint64) uint64 { return (i + i/n) % n }

// Star designs ("one field away from the default" plus the all-maximal
// corner) for the parts where the full product would move too many bytes.

// aeHeadPairwise: every header in which at most two of the five fields differ
// from their default (the full product of every PAIR of header fields with
// the other three at their default: 1 + 14 + 78 = 93), plus the all-maximal
// header: 94.
func aeHeadPairwise() []AEReq {
	var out []AEReq
	for h := uint64(0); h < nAEHead; h++ {
		r := aeHeadAt(h)
		n := 0
		if r.LeaderID != "" {
			n++
		}
		for _, v := range []uint64{r.Term, r.LeaderCommit, r.PrevLogIndex, r.PrevLogTerm} {
			if v != 0 {
				n++
			}
		}
		if n <= 2 || h == nAEHead-1 {
			out = append(out, r)
		}
	}
	return out
}

// isHeadStar: default, one field off default, all-maximal: 1+2+3*3+3+5+1+1 = 22.
func isHeadStar() []ISReq {
	out := []ISReq{{Configuration: Bytes{Nil: true}}}
	def := func() ISReq { return ISReq{Configuration: Bytes{Nil: true}} }
	for _, s := range IDs[1:] {
		r := def()
		r.LeaderID = s
		out = append(out, r)
	}
	for _, v := range U64[1:] {
		a, b, c := def(), def(), def()
		a.Term, b.LastIncludedIndex, c.LastIncludedTerm = v, v, v
		out = append(out, a, b, c)
	}
	for _, v := range SmallBytes[1:] {
		r := def()
		r.Configuration = v
		out = append(out, r)
	}
	for _, v := range I64[1:] {
		r := def()
		r.Offset = v
		out = append(out, r)
	}
	r := def()
	r.Done = true
	out = append(out, r)
	m := uint64(math.MaxUint64)
	out = append(out, ISReq{LeaderID: IDs[2], Term: m, LastIncludedIndex: m, LastIncludedTerm: m, Configuration: Bytes{Len: KiB}, Offset: math.MaxInt64, Done: true})
	return out
}
