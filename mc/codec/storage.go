package codec

import (
	"bytes"
	"encoding/binary"
	"encoding/json"
	"fmt"
	"io"
	"math"
	"os"
	"path/filepath"
	"runtime"
	"sort"
	"sync"
	"sync/atomic"
	"time"

	"github.com/jmsadair/raft"
)

// ---- case specifications ----

// LogCase: a fresh log, positioned with DiscardEntries so that the first
// appended entry has index First (the file log is positional: GetEntry(i)
// reads slot i - entries[0].Index), then Records appended, closed, reopened.
type LogCase struct {
	First    uint64  `json:"first_index"`
	BaseTerm uint64  `json:"base_term"`
	Batch    bool    `json:"batch"`   // one AppendEntries call instead of one AppendEntry per record
	Compact  bool    `json:"compact"` // afterwards Compact(First), reopen, check the remaining records again
	Records  []Entry `json:"records"` // Index is filled in from First
}

// DiscardCase: DiscardEntries(index, term) writes the placeholder record; a
// reopened log must report it (this is how Index 0 and the full Index x Term
// product reach the record codec without violating contiguity).
type DiscardCase struct {
	Index uint64 `json:"index"`
	Term  uint64 `json:"term"`
}

type TermVote struct {
	Term uint64 `json:"term"`
	Vote string `json:"vote"`
}

type StateCase struct {
	Seq []TermVote `json:"seq"`
}

type Member struct {
	ID      string `json:"id"`
	Address string `json:"address"`
	Voter   bool   `json:"voter"`
}

type ConfigCase struct {
	Index   uint64   `json:"index"`
	Members []Member `json:"members"`
	NilMaps bool     `json:"nil_maps,omitempty"` // 0 members only: nil maps instead of empty maps
}

type SnapshotCase struct {
	LastIncludedIndex uint64 `json:"last_included_index"`
	LastIncludedTerm  uint64 `json:"last_included_term"`
	Configuration     Bytes  `json:"configuration"`
	Payload           Bytes  `json:"payload"` // nil: no Write call at all
	Chunked           bool   `json:"chunked"` // written in 32 KiB pieces instead of one Write
}

// StorageCase is the union used in replay files.
type StorageCase struct {
	Log      *LogCase      `json:"log,omitempty"`
	Discard  *DiscardCase  `json:"log_discard,omitempty"`
	State    *StateCase    `json:"state,omitempty"`
	Config   *ConfigCase   `json:"configuration,omitempty"`
	Snapshot *SnapshotCase `json:"snapshot,omitempty"`
}

func (c *StorageCase) JSON() json.RawMessage {
	b, _ := json.Marshal(c)
	return b
}

// ---- domains ----

var storageData = []Bytes{{Nil: true}, {Len: 0}, {Len: 1}, {Len: KiB}, {Len: 4 * KiB}, {Len: 64 * KiB}}

// record domain for the log: Term x Data x EntryType (Index is positional).
func logRecords(tier string) []Entry {
	data := storageData[:4]
	if tier == "thorough" {
		data = storageData
	}
	var out []Entry
	for _, t := range U64 {
		for _, d := range data {
			for _, ty := range Types {
				out = append(out, Entry{Term: t, Data: d, Type: ty, Offset: -7}) // Offset is overwritten by the log
			}
		}
	}
	return out
}

// firstIndexFor maps the Index domain {1, 2^32, max} to the index of the first
// appended record of an n-record list (for max the LAST record has index max).
func firstIndexFor(v uint64, n int) uint64 {
	if v == math.MaxUint64 {
		return v - uint64(n) + 1
	}
	return v
}

func storageCases(tier string) []*StorageCase {
	var cs []*StorageCase
	// log: Index x Term through the placeholder record
	for _, i := range U64 {
		for _, t := range U64 {
			cs = append(cs, &StorageCase{Discard: &DiscardCase{Index: i, Term: t}})
		}
	}
	// log: single records and (thorough: all, quick: diagonal) ordered pairs
	recs := logRecords(tier)
	firsts := []uint64{1, 1 << 32, math.MaxUint64}
	for _, v := range firsts {
		for _, batch := range []bool{false, true} {
			for _, r := range recs {
				cs = append(cs, &StorageCase{Log: &LogCase{First: firstIndexFor(v, 1), BaseTerm: 1, Batch: batch, Records: []Entry{r}}})
			}
		}
	}
	for _, v := range firsts {
		for _, batch := range []bool{false, true} {
			for _, compact := range []bool{false, true} {
				for i, r1 := range recs {
					for j, r2 := range recs {
						if tier != "thorough" && (batch || compact) && (i+j)%7 != 0 {
							// quick: all ordered pairs through AppendEntry without compaction,
							// one seventh of them through the other three variants
							continue
						}
						cs = append(cs, &StorageCase{Log: &LogCase{First: firstIndexFor(v, 2), BaseTerm: math.MaxUint64, Batch: batch, Compact: compact, Records: []Entry{r1, r2}}})
					}
				}
			}
		}
	}
	// one record far beyond every buffer size
	cs = append(cs, &StorageCase{Log: &LogCase{First: 1, Records: []Entry{{Term: 1, Type: 1, Data: Bytes{Len: 8 * MiB}}}}})

	// state: every (term, vote), and every ordered pair of them (overwrite)
	var tvs []TermVote
	for _, t := range U64 {
		for _, v := range IDs {
			tvs = append(tvs, TermVote{t, v})
		}
	}
	cs = append(cs, &StorageCase{State: &StateCase{}})
	for _, a := range tvs {
		cs = append(cs, &StorageCase{State: &StateCase{Seq: []TermVote{a}}})
		for _, b := range tvs {
			cs = append(cs, &StorageCase{State: &StateCase{Seq: []TermVote{a, b}}})
		}
	}

	// configurations: every subset of the 3 ids, every voter assignment, every
	// address assignment over 3 addresses, every Index: 4 * 7^3 = 1372, plus nil maps
	addrs := []string{"", "127.0.0.1:8080", "ñ✓漢:1"}
	for _, idx := range U64 {
		cs = append(cs, &StorageCase{Config: &ConfigCase{Index: idx, NilMaps: true}})
		for mask := 0; mask < 8; mask++ {
			var ids []string
			for b := 0; b < 3; b++ {
				if mask&(1<<b) != 0 {
					ids = append(ids, IDs[b])
				}
			}
			k := len(ids)
			combos := 1
			for i := 0; i < k; i++ {
				combos *= 6
			}
			for c := 0; c < combos; c++ {
				d := digits{uint64(c)}
				ms := []Member{}
				for _, id := range ids {
					x := d.next(6)
					ms = append(ms, Member{ID: id, Address: addrs[x%3], Voter: x/3 == 1})
				}
				cs = append(cs, &StorageCase{Config: &ConfigCase{Index: idx, Members: ms}})
			}
		}
	}

	// snapshots: metadata full product x payload sizes x write mode
	payloads := []Bytes{{Nil: true}, {Len: 0}, {Len: 1}, {Len: snapshotChunk - 1}, {Len: snapshotChunk}, {Len: snapshotChunk + 1}}
	large := []Bytes{{Len: 4*MiB - 64*KiB}, {Len: 4*MiB + 1}, {Len: 8 * MiB}}
	for _, i := range U64 {
		for _, t := range U64 {
			for _, c := range SmallBytes {
				for _, p := range payloads {
					cs = append(cs, &StorageCase{Snapshot: &SnapshotCase{LastIncludedIndex: i, LastIncludedTerm: t, Configuration: c, Payload: p, Chunked: t == 1}})
				}
				for _, p := range large {
					// thorough: full product; quick: the diagonal of the metadata product
					if tier == "thorough" || (i == t && (c.Len == KiB) == (i == math.MaxUint64)) {
						cs = append(cs, &StorageCase{Snapshot: &SnapshotCase{LastIncludedIndex: i, LastIncludedTerm: t, Configuration: c, Payload: p, Chunked: i == 1}})
					}
				}
			}
		}
	}
	return cs
}

const storageRule = "storage read-back through a FRESH storage instance on the same directory: " +
	"log placeholder records Index{0,1,2^32,max} x Term{4} via DiscardEntries; log records Term{4} x Data{nil,empty,1B,1KiB; thorough also 4KiB,64KiB} x EntryType{0,1,2} " +
	"as single records and as ordered pairs, at first index {1, 2^32, max-n+1}, through AppendEntry and AppendEntries, with and without a following Compact " +
	"(thorough: every ordered pair in all four variants; quick: every ordered pair through AppendEntry, every 7th through the other variants), one 8MiB record; " +
	"(term,vote) Term{4} x Vote{3} singly and every ordered pair (overwrite), plus the never-written state; " +
	"configurations: every subset of the 3 ids x voter/non-voter x address{3} per member x Index{4} (1372) plus nil maps, through Transport.EncodeConfiguration/DecodeConfiguration; " +
	"snapshots: LastIncludedIndex{4} x LastIncludedTerm{4} x Configuration{nil,empty,1B,1KiB} x payload{no write,empty,1B,32KiB-1,32KiB,32KiB+1} and {4MiB-64KiB,4MiB+1,8MiB} (thorough: full product, quick: diagonal)"

// ---- execution ----

type storageOutcome struct {
	st         *stats
	cases      uint64
	done       uint64
	exhaustive bool
	wall       float64
	samples    []any
}

func runStorage(tier string, deadline time.Time, scratch string) (*storageOutcome, error) {
	t0 := time.Now()
	cs := storageCases(tier)
	out := &storageOutcome{st: newStats(), cases: uint64(len(cs)), exhaustive: true}
	codecT, err := raft.NewTransport("127.0.0.1:0") // never Run: only its configuration codec is used
	if err != nil {
		return nil, err
	}
	workers := runtime.GOMAXPROCS(0)
	if workers > 16 {
		workers = 16
	}
	var next, done uint64
	var wg sync.WaitGroup
	sts := make([]*stats, workers)
	errs := make([]error, workers)
	for w := 0; w < workers; w++ {
		sts[w] = newStats()
		wg.Add(1)
		go func(w int) {
			defer wg.Done()
			dir := filepath.Join(scratch, fmt.Sprintf("storage-%d", w))
			for {
				if time.Now().After(deadline) {
					return
				}
				i := atomic.AddUint64(&next, 1) - 1
				if i >= uint64(len(cs)) {
					return
				}
				os.RemoveAll(dir)
				if err := os.MkdirAll(dir, 0o755); err != nil {
					errs[w] = err
					return
				}
				runStorageCase(cs[i], dir, codecT, sts[w], i)
				atomic.AddUint64(&done, 1)
			}
		}(w)
	}
	wg.Wait()
	for w := range sts {
		if errs[w] != nil {
			return nil, errs[w]
		}
		out.st.merge(sts[w])
	}
	out.done = done
	out.exhaustive = done == uint64(len(cs))
	out.wall = time.Since(t0).Seconds()
	pick := map[string]bool{}
	for i := len(cs) - 1; i >= 0 && len(out.samples) < 3; i-- {
		k := ""
		switch {
		case cs[i].Log != nil && len(cs[i].Log.Records) == 2 && cs[i].Log.Compact:
			k = "log"
		case cs[i].Config != nil && len(cs[i].Config.Members) == 3:
			k = "configuration"
		case cs[i].Snapshot != nil && cs[i].Snapshot.Payload.Len == snapshotChunk+1:
			k = "snapshot"
		}
		if k != "" && !pick[k] {
			pick[k] = true
			out.samples = append(out.samples, map[string]any{"suite": "storage", "ordinal": i, "record": cs[i]})
		}
	}
	return out, nil
}

func sfail(st *stats, c *StorageCase, ord uint64, cost int, sig, format string, args ...any) {
	st.fail(diff{sig, fmt.Sprintf(format, args...)}, "storage", uint64(cost), ord, func() json.RawMessage { return c.JSON() })
}

func runStorageCase(c *StorageCase, dir string, codecT raft.Transport, st *stats, ord uint64) {
	switch {
	case c.Log != nil:
		runLogCase(c, dir, st, ord)
	case c.Discard != nil:
		runDiscardCase(c, dir, st, ord)
	case c.State != nil:
		runStateCase(c, dir, st, ord)
	case c.Config != nil:
		runConfigCase(c, codecT, st, ord)
	case c.Snapshot != nil:
		runSnapshotCase(c, dir, st, ord)
	}
}

func openLog(dir string) (raft.Log, error) {
	l, err := raft.NewLog(dir)
	if err != nil {
		return nil, err
	}
	if err := l.Open(); err != nil {
		return nil, err
	}
	if err := l.Replay(); err != nil {
		l.Close()
		return nil, err
	}
	return l, nil
}

// frames parses the length-prefixed records of a log file and returns the
// offset of every record; ok is false if the file does not end on a record
// boundary.
func frames(img []byte) (offs []int64, ok bool) {
	pos := 0
	for pos < len(img) {
		if pos+4 > len(img) {
			return offs, false
		}
		n := int(int32(binary.BigEndian.Uint32(img[pos:])))
		if n < 0 || pos+4+n > len(img) {
			return offs, false
		}
		offs = append(offs, int64(pos))
		pos += 4 + n
	}
	return offs, true
}

func runDiscardCase(c *StorageCase, dir string, st *stats, ord uint64) {
	d := c.Discard
	l, err := openLog(dir)
	if err != nil {
		sfail(st, c, ord, 0, "storage:log-error:open", "open of a fresh log failed: %v", err)
		return
	}
	if err := l.DiscardEntries(d.Index, d.Term); err != nil {
		l.Close()
		sfail(st, c, ord, 0, "storage:log-error:discard", "DiscardEntries(%d,%d) failed: %v", d.Index, d.Term, err)
		return
	}
	l.Close()
	img, _ := os.ReadFile(filepath.Join(dir, "log", "log.bin"))
	st.saw("log placeholder record", img)
	l2, err := openLog(dir)
	if err != nil {
		sfail(st, c, ord, 0, "storage:log-error:reopen", "reopen after DiscardEntries(%d,%d) failed: %v", d.Index, d.Term, err)
		return
	}
	defer l2.Close()
	// The placeholder is an ordinary record: a lost field is the same defect
	// class as on an appended record.
	if l2.LastIndex() != d.Index {
		sfail(st, c, ord, 0, "storage:log-index-mismatch", "placeholder record: DiscardEntries(%d,%d), reopened: LastIndex=%d", d.Index, d.Term, l2.LastIndex())
	}
	if l2.LastTerm() != d.Term {
		sfail(st, c, ord, 0, "storage:log-term-mismatch", "placeholder record: DiscardEntries(%d,%d), reopened: LastTerm=%d", d.Index, d.Term, l2.LastTerm())
	}
	if l2.Size() != 0 {
		sfail(st, c, ord, 0, "storage:log-shape-mismatch", "DiscardEntries(%d,%d), reopened: Size=%d", d.Index, d.Term, l2.Size())
	}
}

func runLogCase(c *StorageCase, dir string, st *stats, ord uint64) {
	lc := c.Log
	cost := 0
	for _, r := range lc.Records {
		cost += r.Data.Len + 1
	}
	fail := func(sig, format string, args ...any) { sfail(st, c, ord, cost, sig, format, args...) }
	l, err := openLog(dir)
	if err != nil {
		fail("storage:log-error:open", "open of a fresh log failed: %v", err)
		return
	}
	if lc.First != 1 {
		if err := l.DiscardEntries(lc.First-1, lc.BaseTerm); err != nil {
			l.Close()
			fail("storage:log-error:discard", "DiscardEntries failed: %v", err)
			return
		}
	}
	want := make([]*raft.LogEntry, len(lc.Records))
	for i, r := range lc.Records {
		r.Index = lc.First + uint64(i)
		want[i] = r.Make()
	}
	if lc.Batch {
		err = l.AppendEntries(want)
	} else {
		for _, e := range want {
			if err = l.AppendEntry(e); err != nil {
				break
			}
		}
	}
	if err != nil {
		l.Close()
		fail("storage:log-error:append", "append failed: %v", err)
		return
	}
	// What was written, as the caller knows it (the log stored Offset into the entries).
	type rec struct {
		index, term uint64
		typ         raft.LogEntryType
		data        []byte
		offset      int64
	}
	exp := make([]rec, len(want))
	for i, e := range want {
		exp[i] = rec{e.Index, e.Term, e.EntryType, lc.Records[i].Data.Make(), e.Offset}
	}
	if err := l.Close(); err != nil {
		fail("storage:log-error:close", "close failed: %v", err)
		return
	}
	logFile := filepath.Join(dir, "log", "log.bin")
	img, _ := os.ReadFile(logFile)
	for range want {
		st.counts["log record"]++
	}
	st.hashes = append(st.hashes, encHash("log image", img))
	offs, ok := frames(img)
	if !ok || len(offs) != len(want)+1 {
		fail("storage:log-framing", "log file of %d bytes holds %d whole records (complete=%t), expected %d", len(img), len(offs), ok, len(want)+1)
		return
	}
	for i := range exp {
		if exp[i].offset != offs[i+1] {
			fail("storage:log-offset-wrong", "record %d: the log assigned Offset %d but the record starts at byte %d of log.bin", i, exp[i].offset, offs[i+1])
		}
	}
	check := func(l raft.Log, from int, when string) {
		// Number of records; the fields of the last record are compared below
		// through GetEntry (LastIndex/LastTerm read the same record).
		if l.Size() != len(exp)-from {
			fail("storage:log-shape-mismatch", "%s: Size=%d, expected %d", when, l.Size(), len(exp)-from)
		}
		for i := from; i < len(exp); i++ {
			g, err := l.GetEntry(exp[i].index)
			if err != nil || g == nil {
				fail("storage:log-entry-missing", "%s: GetEntry(%d): %v", when, exp[i].index, err)
				continue
			}
			if g.Index != exp[i].index {
				fail("storage:log-index-mismatch", "%s: record %d: Index written %d, read %d", when, i, exp[i].index, g.Index)
			}
			if g.Term != exp[i].term {
				fail("storage:log-term-mismatch", "%s: record %d: Term written %d, read %d", when, i, exp[i].term, g.Term)
			}
			if g.EntryType != exp[i].typ {
				fail("storage:log-entry-type-mismatch:"+typeName(uint32(exp[i].typ)), "%s: record %d: EntryType written %d, read %d", when, i, exp[i].typ, g.EntryType)
			}
			if !bytesEq(g.Data, exp[i].data) {
				fail("storage:log-data-mismatch", "%s: record %d: Data written %s, read %s", when, i, describe(exp[i].data), describe(g.Data))
			}
			if g.Offset != exp[i].offset {
				fail("storage:log-offset-unstable", "%s: record %d: Offset assigned %d, read %d", when, i, exp[i].offset, g.Offset)
			}
		}
	}
	for round := 1; round <= 2; round++ { // stable across two reopens
		l2, err := openLog(dir)
		if err != nil {
			fail("storage:log-error:reopen", "reopen %d failed: %v", round, err)
			return
		}
		check(l2, 0, fmt.Sprintf("reopen %d", round))
		if round == 2 && lc.Compact {
			if err := l2.Compact(lc.First); err != nil {
				l2.Close()
				fail("storage:log-error:compact", "Compact(%d) failed: %v", lc.First, err)
				return
			}
			// Compaction rewrites the file; the log reassigns the offsets.
			for i := 1; i < len(exp); i++ {
				if g, err := l2.GetEntry(exp[i].index); err == nil && g != nil {
					exp[i].offset = g.Offset
				}
			}
			check(l2, 1, "after Compact")
			l2.Close()
			img, _ := os.ReadFile(logFile)
			offs, ok := frames(img)
			if !ok || len(offs) != len(exp) {
				fail("storage:log-framing", "after Compact: log file of %d bytes holds %d whole records (complete=%t), expected %d", len(img), len(offs), ok, len(exp))
				return
			}
			for i := 1; i < len(exp); i++ {
				if exp[i].offset != offs[i] {
					fail("storage:log-offset-wrong", "after Compact: record %d: Offset %d but the record starts at byte %d", i, exp[i].offset, offs[i])
				}
			}
			l3, err := openLog(dir)
			if err != nil {
				fail("storage:log-error:reopen", "reopen after Compact failed: %v", err)
				return
			}
			check(l3, 1, "reopen after Compact")
			l3.Close()
			return
		}
		l2.Close()
	}
}

func runStateCase(c *StorageCase, dir string, st *stats, ord uint64) {
	sc := c.State
	fail := func(sig, format string, args ...any) { sfail(st, c, ord, len(sc.Seq), sig, format, args...) }
	s, err := raft.NewStateStorage(dir)
	if err != nil {
		fail("storage:state-error", "NewStateStorage: %v", err)
		return
	}
	want := TermVote{}
	for _, tv := range sc.Seq {
		if err := s.SetState(tv.Term, tv.Vote); err != nil {
			fail("storage:state-error", "SetState(%d,%q): %v", tv.Term, tv.Vote, err)
			return
		}
		want = tv
		st.counts["state record"]++
	}
	if len(sc.Seq) == 0 {
		st.counts["state record"]++ // the never-written state
	}
	img, _ := os.ReadFile(filepath.Join(dir, "state", "state.bin"))
	st.hashes = append(st.hashes, encHash("state image", img))
	for _, which := range []string{"same instance", "fresh instance"} {
		if which == "fresh instance" {
			if s, err = raft.NewStateStorage(dir); err != nil {
				fail("storage:state-error", "NewStateStorage (reopen): %v", err)
				return
			}
		}
		t, v, err := s.State()
		if err != nil {
			fail("storage:state-error", "State() on the %s: %v", which, err)
			continue
		}
		if t != want.Term || v != want.Vote {
			fail("storage:state-mismatch", "%s: wrote (%d,%q), read (%d,%q)", which, want.Term, want.Vote, t, v)
		}
	}
}

func (cc *ConfigCase) Make() *raft.Configuration {
	c := &raft.Configuration{Index: cc.Index}
	if !cc.NilMaps {
		c.Members, c.IsVoter = map[string]string{}, map[string]bool{}
	}
	for _, m := range cc.Members {
		c.Members[m.ID] = m.Address
		c.IsVoter[m.ID] = m.Voter
	}
	return c
}

func canonConfig(c *raft.Configuration) string {
	ids := make([]string, 0, len(c.Members))
	for id := range c.Members {
		ids = append(ids, id)
	}
	sort.Strings(ids)
	var b bytes.Buffer
	fmt.Fprintf(&b, "%d|", c.Index)
	for _, id := range ids {
		fmt.Fprintf(&b, "%q=%q;", id, c.Members[id])
	}
	ids = ids[:0]
	for id := range c.IsVoter {
		ids = append(ids, id)
	}
	sort.Strings(ids)
	b.WriteString("|")
	for _, id := range ids {
		fmt.Fprintf(&b, "%q=%t;", id, c.IsVoter[id])
	}
	return b.String()
}

func runConfigCase(c *StorageCase, t raft.Transport, st *stats, ord uint64) {
	cc := c.Config
	fail := func(sig, format string, args ...any) { sfail(st, c, ord, len(cc.Members), sig, format, args...) }
	want := cc.Make()
	st.counts["configuration"]++
	// protobuf writes maps in random order: the encoded form is not a function
	// of the value, so the canonical rendering of the value identifies it.
	st.hashes = append(st.hashes, encHash("configuration", []byte(canonConfig(want))))
	for round := 0; round < 2; round++ {
		enc, err := t.EncodeConfiguration(want)
		if err != nil {
			fail("storage:configuration-error", "EncodeConfiguration: %v", err)
			return
		}
		got, err := t.DecodeConfiguration(enc)
		if err != nil {
			fail("storage:configuration-error", "DecodeConfiguration: %v", err)
			return
		}
		// nil and empty maps are the same value (an empty map has no wire form).
		if a, b := canonConfig(want), canonConfig(&got); a != b {
			fail("storage:configuration-mismatch", "encoded %s, decoded %s", a, b)
		}
	}
}

func runSnapshotCase(c *StorageCase, dir string, st *stats, ord uint64) {
	sc := c.Snapshot
	fail := func(sig, format string, args ...any) { sfail(st, c, ord, sc.Payload.Len, sig, format, args...) }
	store, err := raft.NewSnapshotStorage(dir)
	if err != nil {
		fail("storage:snapshot-error", "NewSnapshotStorage: %v", err)
		return
	}
	cfg, payload := sc.Configuration.Make(), sc.Payload.Make()
	f, err := store.NewSnapshotFile(sc.LastIncludedIndex, sc.LastIncludedTerm, cfg)
	if err != nil {
		fail("storage:snapshot-error", "NewSnapshotFile: %v", err)
		return
	}
	st.counts["snapshot"]++
	mdEq := func(m raft.SnapshotMetadata) bool {
		return m.LastIncludedIndex == sc.LastIncludedIndex && m.LastIncludedTerm == sc.LastIncludedTerm && bytesEq(m.Configuration, cfg)
	}
	if !mdEq(f.Metadata()) {
		m := f.Metadata()
		fail("storage:snapshot-metadata-mismatch", "NewSnapshotFile(%d,%d,%s).Metadata() = (%d,%d,%s)", sc.LastIncludedIndex, sc.LastIncludedTerm, describe(cfg), m.LastIncludedIndex, m.LastIncludedTerm, describe(m.Configuration))
	}
	if !sc.Payload.Nil {
		if sc.Chunked {
			for off := 0; off < len(payload) || off == 0; off += snapshotChunk {
				end := off + snapshotChunk
				if end > len(payload) {
					end = len(payload)
				}
				if _, err := f.Write(payload[off:end]); err != nil {
					fail("storage:snapshot-error", "Write: %v", err)
					return
				}
			}
		} else if _, err := f.Write(payload); err != nil {
			fail("storage:snapshot-error", "Write: %v", err)
			return
		}
	}
	if err := f.Close(); err != nil {
		fail("storage:snapshot-error", "Close: %v", err)
		return
	}
	mds, _ := filepath.Glob(filepath.Join(dir, "snapshots", "snapshot-*", "metadata.json"))
	var img []byte
	for _, m := range mds {
		b, _ := os.ReadFile(m)
		img = append(img, b...)
	}
	img = append(img, fmt.Sprintf("|payload %d", len(payload))...)
	st.hashes = append(st.hashes, encHash("snapshot image", img))
	store2, err := raft.NewSnapshotStorage(dir)
	if err != nil {
		fail("storage:snapshot-error", "NewSnapshotStorage (reopen): %v", err)
		return
	}
	g, err := store2.SnapshotFile()
	if err != nil || g == nil {
		fail("storage:snapshot-missing", "SnapshotFile() after Close: file=%v err=%v", g != nil, err)
		return
	}
	defer g.Close()
	if !mdEq(g.Metadata()) {
		m := g.Metadata()
		fail("storage:snapshot-metadata-mismatch", "wrote (%d,%d,%s), read (%d,%d,%s)", sc.LastIncludedIndex, sc.LastIncludedTerm, describe(cfg), m.LastIncludedIndex, m.LastIncludedTerm, describe(m.Configuration))
	}
	got, err := io.ReadAll(g)
	if err != nil {
		fail("storage:snapshot-error", "read: %v", err)
		return
	}
	if !bytesEq(got, payload) {
		fail("storage:snapshot-payload-mismatch", "wrote %s, read %s", describe(payload), describe(got))
	}
}
