package codec

import (
	"encoding/json"
	"fmt"
	"os"
	"path/filepath"
	"sort"
	"time"

	"github.com/jmsadair/raft"

	"verif/mc/common"
)

const offsetNote = "(line numbers as of /repo commit 3df16bc) LogEntry.Offset is a storage-only field: the RPC converter (requests.go:104-117 makeProtoEntries) does not put it on the wire although the .proto message has the field, " +
	"and the receiving log overwrites it on append (log.go:280-284). It is therefore set to non-zero values in every sent entry, NOT compared on the RPC path, " +
	"and only counted when it arrives non-zero; on the storage path it must equal the byte position the log assigned and stay the same across reopens."

const senderNote = "(line numbers as of /repo commit 3df16bc) By reading raft.go:1618-1628: sendInstallSnapshot reads 'a chunk' with io.Copy(&buf, follower.snapshot), i.e. everything from the current offset to the end of the file, " +
	"and sends it as ONE InstallSnapshotRequest (Done = n < 32 KiB, so a file of >= 32 KiB is followed by one empty request with Done=true). snapshotChunkSize (raft.go:39) is never used to cut the data. " +
	"The bundled transport creates its server with grpc.NewServer() (transport.go:175) and its clients with grpc.NewClient(address, creds) (transport.go:102) without message-size options, " +
	"so the receiver refuses every request whose serialized form exceeds 4194304 bytes. After the refusal the file position is at EOF (io.Copy consumed it): the next heartbeat sends an empty " +
	"chunk at offset=size, the follower answers its own offset 0, the leader seeks back to 0 and sends the whole file again: the follower never receives the snapshot. " +
	"The same holds for sendAppendEntries (raft.go:1007-1023), which ships the whole missing log suffix in one request. " +
	"The sender emulation below executes those statements against the real snapshot storage and the real transport."

func scratchDir() (string, error) {
	base := "/dev/shm"
	if fi, err := os.Stat(base); err != nil || !fi.IsDir() {
		base = os.TempDir()
	}
	dir := filepath.Join(base, fmt.Sprintf("verif-codec.%d", os.Getpid()))
	os.RemoveAll(dir)
	if err := os.MkdirAll(dir, 0o755); err != nil {
		base = os.TempDir()
		dir = filepath.Join(base, fmt.Sprintf("verif-codec.%d", os.Getpid()))
		if err := os.MkdirAll(dir, 0o755); err != nil {
			return "", err
		}
	}
	return dir, nil
}

func trivialHashes() map[uint64]bool {
	t := map[uint64]bool{}
	for _, m := range []string{"AppendEntriesRequest", "AppendEntriesResponse", "RequestVoteRequest", "RequestVoteResponse", "InstallSnapshotRequest", "InstallSnapshotResponse"} {
		t[encHash(m, nil)] = true // proto3: the all-defaults message encodes to zero bytes
	}
	t[encHash("log placeholder record", []byte{0, 0, 0, 0})] = true
	t[encHash("state image", nil)] = true
	t[encHash("state image", []byte{0, 0, 0, 0})] = true
	t[encHash("configuration", []byte(canonConfig(&raft.Configuration{})))] = true
	t[encHash("snapshot image", []byte(`{"last_included_index":0,"last_included_term":0,"configuration":null}|payload 0`))] = true
	t[encHash("snapshot image", []byte(`{"last_included_index":0,"last_included_term":0,"configuration":""}|payload 0`))] = true
	return t
}

func sum(m map[string]uint64) uint64 {
	var n uint64
	for _, v := range m {
		n += v
	}
	return n
}

// Run is the check C19.
func Run(prop, tier string) int {
	t0 := time.Now()
	budget := 80 * time.Second
	if tier == "thorough" {
		budget = 6 * time.Minute
	}
	if v := os.Getenv("VERIF_CODEC_DEADLINE_S"); v != "" { // dev aid: exercise the deadline path
		var secs float64
		if _, err := fmt.Sscan(v, &secs); err == nil && secs > 0 {
			budget = time.Duration(secs * float64(time.Second))
		}
	}
	deadline := t0.Add(budget)
	rep := common.NewReport(prop)
	scratch, err := scratchDir()
	if err != nil {
		fmt.Println("INFRA: scratch directory:", err)
		return 2
	}
	defer os.RemoveAll(scratch)

	sto, err := runStorage(tier, deadline, scratch)
	if err != nil {
		fmt.Println("INFRA: storage suite:", err)
		return 2
	}
	rpc, err := runRPC(tier, deadline, scratch)
	if err != nil {
		fmt.Println("INFRA: rpc suite:", err)
		return 2
	}
	wire := runWire(tier, deadline)

	trivial := trivialHashes()
	dSto := distinct(sto.st.hashes, trivial)
	dWire := distinct(wire.st.hashes, trivial)
	dRPC := distinct(rpc.st.hashes, trivial)
	all := newStats()
	perSuite := map[string]map[string]uint64{"storage": sto.st.counts, "wire": wire.st.counts, "rpc": rpc.st.counts}
	nSto, nWire, nRPC := sum(sto.st.counts), sum(wire.st.counts), sum(rpc.st.counts)
	all.merge(sto.st)
	all.merge(rpc.st) // before wire: on a tie the replay goes through the real transport
	all.merge(wire.st)
	dAll := distinct(all.hashes, trivial)
	all.hashes = nil
	evaluations := nSto + nWire + nRPC
	if evaluations == 0 || nRPC == 0 || nSto == 0 || rpc.rpcs == 0 {
		fmt.Printf("INFRA: vacuous run: %d messages over RPC, %d in-process, %d storage records\n", nRPC, nWire, nSto)
		return 2
	}
	exhaustive := sto.exhaustive && wire.exhaustive && rpc.exhaustive

	// Violations: one per distinct signature, with its smallest failing case,
	// smallest first.
	sigs := make([]string, 0, len(all.sigs))
	for s := range all.sigs {
		sigs = append(sigs, s)
	}
	sort.Slice(sigs, func(i, j int) bool {
		a, b := all.sigs[sigs[i]], all.sigs[sigs[j]]
		if a.cost != b.cost {
			return a.cost < b.cost
		}
		return sigs[i] < sigs[j]
	})
	sigEv := map[string]any{}
	for _, s := range sigs {
		si := all.sigs[s]
		isNew := rep.Add(&common.Violation{Property: prop, Signature: s, Detail: si.diff.detail},
			&common.Replay{Engine: "codec", Suite: si.suite, Params: si.param})
		sigEv[s] = map[string]any{"count": si.count, "suite": si.suite, "smallest_case_bytes": si.cost, "known_finding": !isNew}
	}

	parts := []any{map[string]any{"part": "storage", "cases": sto.cases, "done": sto.done, "wall_s": sto.wall, "rule": storageRule}}
	for _, p := range rpc.parts {
		parts = append(parts, p)
	}
	for _, p := range wire.parts {
		parts = append(parts, p)
	}
	samples := append(append(append([]any{}, rpc.samples...), wire.samples...), sto.samples...)
	if len(samples) > 6 {
		samples = samples[:6]
	}
	cov := map[string]any{
		"evaluations":                  evaluations,
		"evaluations_explained":        "messages sent through the real transports (requests and responses counted separately) + messages through the in-process converter/codec round trip + storage records written and read back through a fresh instance",
		"rpcs":                         rpc.rpcs,
		"transport_pairs":              rpc.pairs,
		"per_type":                     perSuite,
		"distinct_nontrivial":          dAll,
		"distinct_nontrivial_rule":     "number of distinct (message type, encoded form) pairs, counted from a 64-bit hash of the protobuf encoding of every message sent (the encoding the transport puts on the wire) and of the file image of every stored record (configurations: canonical rendering of the value, because protobuf writes maps in random order), excluding the encodings of the all-defaults messages/records; the union over the three suites counts a message seen by several suites once",
		"distinct_nontrivial_by_suite": map[string]uint64{"storage": dSto, "wire": dWire, "rpc": dRPC},
		"rule": "exhaustive enumeration, no sampling. Domains: uint64 {0,1,2^32,max}; int64 {0,1,2^32,max,-1,min}; ids {\"\",\"a\",\"ñ✓漢\"}; bools; byte slices {nil,empty,1B,1KiB}; entry types {0,1,2}; " +
			"InstallSnapshot.Bytes {nil,empty,1B,32KiB-1,32KiB,32KiB+1,4MiB-64KiB,4MiB+1,8MiB}. Each part below states its product. Every RPC part alternates the direction a->b / b->a by ordinal; " +
			"one RPC in flight per transport pair, so what the handler recorded is attributed without any identifier inside the message. " +
			"Oracle: field-wise equality, nil == empty for byte slices, entry lists and maps; an error from Send* on a valid message is a failure.",
		"parts":                       parts,
		"samples":                     samples,
		"exhaustive":                  exhaustive,
		"deadline_s":                  budget.Seconds(),
		"largest_passed":              all.maxPassed,
		"smallest_refused":            all.minRefused,
		"receive_limit_bisection":     rpc.bisect,
		"signatures":                  sigEv,
		"known_findings_matched":      len(rep.KnownSeen),
		"entry_offset":                offsetNote,
		"entries_arrived_with_offset": all.offsetSeen,
		"sender_path":                 senderNote,
		"sender_emulation":            rpc.sender,
		"transient_rpc_retries":       all.retries,
	}
	ev := &common.Evidence{PropertyID: prop, Tier: tier, Seed: common.Seed(), Level: "exploration", Coverage: cov,
		Assumptions: []string{
			"loopback TCP stands for the network: the transport's behaviour does not depend on the peer's address",
			"strings are valid UTF-8 (protobuf string fields cannot carry anything else; ids are chosen by the application)",
			"nil and empty byte slices / lists / maps are the same value",
		},
		WallS: time.Since(t0).Seconds(), Violations: len(rep.Violations)}
	if err := ev.Write(); err != nil {
		fmt.Println("INFRA: evidence:", err)
		return 2
	}
	fmt.Printf("%s %s: evaluations=%d (rpc messages %d in %d RPCs over %d transport pairs, in-process %d, storage records %d) distinct_nontrivial=%d signatures=%d exhaustive=%t wall=%.1fs\n",
		prop, tier, evaluations, nRPC, rpc.rpcs, rpc.pairs, nWire, nSto, dAll, len(sigs), exhaustive, time.Since(t0).Seconds())
	return rep.Finish()
}

// Replay re-executes the single case of a replay file.
func Replay(r *common.Replay, path string) int {
	scratch, err := scratchDir()
	if err != nil {
		fmt.Println("INFRA: scratch directory:", err)
		return 2
	}
	defer os.RemoveAll(scratch)
	st := newStats()
	switch r.Suite {
	case "storage":
		c := &StorageCase{}
		if err := json.Unmarshal(r.Params, c); err != nil {
			fmt.Println("INFRA:", err)
			return 2
		}
		t, err := raft.NewTransport("127.0.0.1:0")
		if err != nil {
			fmt.Println("INFRA:", err)
			return 2
		}
		dir := filepath.Join(scratch, "replay")
		os.MkdirAll(dir, 0o755)
		runStorageCase(c, dir, t, st, 0)
	case "wire":
		c := &WireCase{}
		if err := json.Unmarshal(r.Params, c); err != nil {
			fmt.Println("INFRA:", err)
			return 2
		}
		runWireCase(c, st, 0)
	case "rpc":
		var probe struct {
			Sender *struct {
				Size int    `json:"snapshot_file_bytes"`
				Dir  string `json:"dir"`
			} `json:"sender_emulation"`
		}
		if err := json.Unmarshal(r.Params, &probe); err != nil {
			fmt.Println("INFRA:", err)
			return 2
		}
		p, err := newPair()
		if err != nil {
			fmt.Println("INFRA:", err)
			return 2
		}
		defer p.close()
		var n uint64
		if probe.Sender != nil {
			res, err := senderEmulation(p, probe.Sender.Dir, probe.Sender.Size, filepath.Join(scratch, "sender"), st, &n)
			if err != nil {
				fmt.Println("INFRA:", err)
				return 2
			}
			b, _ := json.Marshal(res)
			fmt.Println("sender emulation:", string(b))
		} else {
			c := &RPCCase{}
			if err := json.Unmarshal(r.Params, c); err != nil || c.RPC == "" {
				fmt.Println("INFRA: not an RPC case:", err)
				return 2
			}
			fmt.Printf("replaying %s %s\n", c.RPC, c.Dir)
			p.run(c, st, 0)
		}
	default:
		fmt.Println("INFRA: unknown codec suite", r.Suite)
		return 2
	}
	sigs := make([]string, 0, len(st.sigs))
	for s := range st.sigs {
		sigs = append(sigs, s)
	}
	sort.Strings(sigs)
	code := 0
	for _, s := range sigs {
		fmt.Printf("VIOLATION property=%s replay=%s signature=%q detail=%q\n", r.Property, path, s, st.sigs[s].diff.detail)
		code = 1
	}
	if code == 0 {
		fmt.Println("replay finished without a violation of", r.Property)
	}
	return code
}
