package codec

import (
	"encoding/json"
	"runtime"
	"sync"
	"sync/atomic"
	"time"

	"github.com/jmsadair/raft"
)

// The wire suite pushes messages through the library's own converters
// (requests.go make*/makeProto*) and the protobuf codec in-process: exactly
// the transformation the gRPC transport applies on both sides (transport.go
// 228-234, 333-338), without sockets. It exists so that the product that is
// too large for real RPCs (768 headers x 36864 two-entry lists) is still
// enumerated in full.

// WireCase: exactly one message.
type WireCase struct {
	AEReq  *AEReq  `json:"append_entries_request,omitempty"`
	AEResp *AEResp `json:"append_entries_response,omitempty"`
	RVReq  *RVReq  `json:"request_vote_request,omitempty"`
	RVResp *RVResp `json:"request_vote_response,omitempty"`
	ISReq  *ISReq  `json:"install_snapshot_request,omitempty"`
	ISResp *ISResp `json:"install_snapshot_response,omitempty"`
}

func (c *WireCase) JSON() json.RawMessage {
	b, _ := json.Marshal(c)
	return b
}

func runWireCase(c *WireCase, st *stats, ord uint64) {
	var ds []diff
	var cost int
	switch {
	case c.AEReq != nil:
		m := c.AEReq.Make()
		got, enc := raft.VerifWireAppendEntriesRequest(m)
		st.saw("AppendEntriesRequest", enc)
		cost = len(enc)
		ds = diffAEReq(&m, &got, &st.offsetSeen)
	case c.AEResp != nil:
		m := c.AEResp.Make()
		got, enc := raft.VerifWireAppendEntriesResponse(m)
		st.saw("AppendEntriesResponse", enc)
		cost = len(enc)
		ds = diffAEResp(&m, &got)
	case c.RVReq != nil:
		m := c.RVReq.Make()
		got, enc := raft.VerifWireRequestVoteRequest(m)
		st.saw("RequestVoteRequest", enc)
		cost = len(enc)
		ds = diffRVReq(&m, &got)
	case c.RVResp != nil:
		m := c.RVResp.Make()
		got, enc := raft.VerifWireRequestVoteResponse(m)
		st.saw("RequestVoteResponse", enc)
		cost = len(enc)
		ds = diffRVResp(&m, &got)
	case c.ISReq != nil:
		m := c.ISReq.Make()
		got, enc := raft.VerifWireInstallSnapshotRequest(m)
		st.saw("InstallSnapshotRequest", enc)
		cost = len(enc)
		ds = diffISReq(&m, &got)
	case c.ISResp != nil:
		m := c.ISResp.Make()
		got, enc := raft.VerifWireInstallSnapshotResponse(m)
		st.saw("InstallSnapshotResponse", enc)
		cost = len(enc)
		ds = diffISResp(&m, &got)
	}
	for _, d := range ds {
		st.fail(d, "wire", uint64(cost), ord, func() json.RawMessage { return c.JSON() })
	}
}

type wirePart struct {
	name string
	n    uint64
	gen  func(i uint64) *WireCase
	rule string
}

func wireParts(tier string) []wirePart {
	lists := nList1
	rule := "AppendEntriesRequest: FULL product of the header (768) x every entry list of length 0..1 (194)"
	if tier == "thorough" {
		lists += nList2
		rule = "AppendEntriesRequest: FULL product of the header (768) x every entry list of length 0..2 (nil, empty, 192 single entries, 36864 ordered pairs): 768 x 37058 = 28460544 messages"
	}
	return []wirePart{
		{"append-entries-request", nAEHead * lists, func(i uint64) *WireCase {
			q := aeHeadAt(i % nAEHead)
			if l := i / nAEHead; l < nList1 {
				list1At(l, &q)
			} else {
				list2At(l-nList1, &q)
			}
			return &WireCase{AEReq: &q}
		}, rule},
		{"append-entries-response", nAEResp, func(i uint64) *WireCase { r := aeRespAt(i); return &WireCase{AEResp: &r} }, "AppendEntriesResponse: full product (32)"},
		{"request-vote-request", nRVReq, func(i uint64) *WireCase { r := rvReqAt(i); return &WireCase{RVReq: &r} }, "RequestVoteRequest: full product (384)"},
		{"request-vote-response", nRVResp, func(i uint64) *WireCase { r := rvRespAt(i); return &WireCase{RVResp: &r} }, "RequestVoteResponse: full product (8)"},
		{"install-snapshot-request", nISHead * uint64(len(snapSmall)), func(i uint64) *WireCase {
			r := isHeadAt(i % nISHead)
			r.Bytes = snapSmall[i/nISHead]
			return &WireCase{ISReq: &r}
		}, "InstallSnapshotRequest: full product of the other fields (9216) x Bytes{nil,empty,1B,32KiB-1,32KiB,32KiB+1}"},
		{"install-snapshot-response", nISResp, func(i uint64) *WireCase { r := isRespAt(i); return &WireCase{ISResp: &r} }, "InstallSnapshotResponse: full product (24)"},
	}
}

type wireOutcome struct {
	st         *stats
	parts      []partResult
	exhaustive bool
	samples    []any
}

func runWire(tier string, deadline time.Time) *wireOutcome {
	out := &wireOutcome{st: newStats(), exhaustive: true}
	workers := runtime.GOMAXPROCS(0)
	if workers > 16 {
		workers = 16
	}
	for _, pt := range wireParts(tier) {
		pt := pt
		t0 := time.Now()
		var next, done uint64
		var wg sync.WaitGroup
		sts := make([]*stats, workers)
		for w := 0; w < workers; w++ {
			sts[w] = newStats()
			wg.Add(1)
			go func(st *stats) {
				defer wg.Done()
				const batch = 1024
				for {
					if time.Now().After(deadline) {
						return
					}
					lo := atomic.AddUint64(&next, batch) - batch
					if lo >= pt.n {
						return
					}
					hi := lo + batch
					if hi > pt.n {
						hi = pt.n
					}
					for i := lo; i < hi; i++ {
						runWireCase(pt.gen(i), st, i)
					}
					atomic.AddUint64(&done, hi-lo)
				}
			}(sts[w])
		}
		wg.Wait()
		for _, st := range sts {
			out.st.merge(st)
		}
		out.parts = append(out.parts, partResult{Name: "wire:" + pt.name, Cases: pt.n, Done: done, WallS: time.Since(t0).Seconds(), Rule: pt.rule})
		if done < pt.n {
			out.exhaustive = false
		}
		if pt.name == "append-entries-request" {
			out.samples = append(out.samples, map[string]any{"suite": "wire", "part": pt.name, "ordinal": pt.n - 1, "message": pt.gen(pt.n - 1)})
		}
	}
	return out
}
