package codec

import (
	"bytes"
	"encoding/json"
	"fmt"
	"io"
	"net"
	"os"
	"path/filepath"
	"strings"
	"sync"
	"sync/atomic"
	"time"

	"github.com/jmsadair/raft"
)

// slot records what the handlers of one transport pair received. There is
// never more than one RPC in flight per pair, so one slot serves both
// directions; the mutex only publishes the handler's writes to the sender.
type slot struct {
	mu     sync.Mutex
	calls  int
	ae     raft.AppendEntriesRequest
	rv     raft.RequestVoteRequest
	is     raft.InstallSnapshotRequest
	aeResp raft.AppendEntriesResponse
	rvResp raft.RequestVoteResponse
	isResp raft.InstallSnapshotResponse
}

type pair struct {
	a, b         raft.Transport
	addrA, addrB string
	s            *slot
}

func (s *slot) register(t raft.Transport) {
	t.RegisterAppendEntriesHandler(func(req *raft.AppendEntriesRequest, resp *raft.AppendEntriesResponse) error {
		s.mu.Lock()
		defer s.mu.Unlock()
		s.calls++
		s.ae = *req
		*resp = s.aeResp
		return nil
	})
	t.RegisterRequestVoteHandler(func(req *raft.RequestVoteRequest, resp *raft.RequestVoteResponse) error {
		s.mu.Lock()
		defer s.mu.Unlock()
		s.calls++
		s.rv = *req
		*resp = s.rvResp
		return nil
	})
	t.RegsiterInstallSnapshotHandler(func(req *raft.InstallSnapshotRequest, resp *raft.InstallSnapshotResponse) error {
		s.mu.Lock()
		defer s.mu.Unlock()
		s.calls++
		s.is = *req
		*resp = s.isResp
		return nil
	})
}

// freePort asks the kernel for a free loopback port. The port is released
// before the transport binds it, so Run can still lose the race: the caller
// retries with another port.
func freePort() (int, error) {
	l, err := net.Listen("tcp", "127.0.0.1:0")
	if err != nil {
		return 0, err
	}
	p := l.Addr().(*net.TCPAddr).Port
	l.Close()
	return p, nil
}

func startTransport(s *slot) (raft.Transport, string, error) {
	var last error
	for try := 0; try < 50; try++ {
		port, err := freePort()
		if err != nil {
			last = err
			continue
		}
		addr := fmt.Sprintf("127.0.0.1:%d", port)
		t, err := raft.NewTransport(addr)
		if err != nil {
			last = err
			continue
		}
		s.register(t)
		if err := t.Run(); err != nil { // port taken meanwhile: pick another
			last = err
			continue
		}
		return t, addr, nil
	}
	return nil, "", fmt.Errorf("no loopback port could be bound: %v", last)
}

func newPair() (*pair, error) {
	s := &slot{}
	a, addrA, err := startTransport(s)
	if err != nil {
		return nil, err
	}
	b, addrB, err := startTransport(s)
	if err != nil {
		a.Shutdown()
		return nil, err
	}
	p := &pair{a: a, b: b, addrA: addrA, addrB: addrB, s: s}
	// Warm up both directions (connection establishment is lazy).
	for _, dir := range []string{"a->b", "b->a"} {
		var err error
		for try := 0; try < 40; try++ {
			from, to := p.route(dir)
			_, err = from.SendRequestVote(to, raft.RequestVoteRequest{})
			if err == nil {
				break
			}
			time.Sleep(25 * time.Millisecond)
		}
		if err != nil {
			p.close()
			return nil, fmt.Errorf("warm-up RPC %s failed: %v", dir, err)
		}
	}
	return p, nil
}

func (p *pair) close() {
	var wg sync.WaitGroup
	for _, t := range []raft.Transport{p.a, p.b} {
		wg.Add(1)
		go func(t raft.Transport) { defer wg.Done(); t.Shutdown() }(t)
	}
	wg.Wait()
}

func (p *pair) route(dir string) (raft.Transport, string) {
	if dir == "b->a" {
		return p.b, p.addrA
	}
	return p.a, p.addrB
}

func transient(err error) bool {
	m := err.Error()
	return strings.Contains(m, "code = Unavailable") || strings.Contains(m, "code = Canceled")
}

// run sends one case through the pair and applies the oracle. It returns
// whether the request arrived (no error from Send*).
func (p *pair) run(c *RPCCase, st *stats, ord uint64) bool {
	from, to := p.route(c.Dir)
	s := p.s
	param := func() json.RawMessage { return c.JSON() }
	var ds []diff
	var cost uint64
	var err error
	arrived := false
	switch c.RPC {
	case "AppendEntries":
		req, resp := c.AEReq.Make(), c.AEResp.Make()
		_, enc := raft.VerifWireAppendEntriesRequest(req)
		_, renc := raft.VerifWireAppendEntriesResponse(resp)
		cost = uint64(len(enc))
		st.saw("AppendEntriesRequest", enc)
		var got raft.AppendEntriesResponse
		for try := 0; ; try++ {
			s.mu.Lock()
			s.calls, s.aeResp, s.ae = 0, resp, raft.AppendEntriesRequest{}
			s.mu.Unlock()
			got, err = from.SendAppendEntries(to, req)
			if err == nil || !transient(err) || try == 3 {
				break
			}
			st.retries++
			time.Sleep(10 * time.Millisecond)
		}
		total := 0
		for _, e := range req.Entries {
			total += len(e.Data)
		}
		if err != nil {
			ds = append(ds, classifyRPCError(c.RPC, err))
			st.refused("AppendEntriesRequest.Entries.Data(total)", total)
			break
		}
		arrived = true
		st.saw("AppendEntriesResponse", renc)
		s.mu.Lock()
		calls, rec := s.calls, s.ae
		s.mu.Unlock()
		if calls != 1 {
			ds = append(ds, diff{"handler-calls:append-entries", fmt.Sprintf("SendAppendEntries returned without error but the handler ran %d times", calls)})
			break
		}
		ds = diffAEReq(&req, &rec, &st.offsetSeen)
		ds = append(ds, diffAEResp(&resp, &got)...)
		if len(ds) == 0 {
			st.passed("AppendEntriesRequest.Entries.Data(total)", total)
			st.passed("serialized request", len(enc))
		}
	case "RequestVote":
		req, resp := c.RVReq.Make(), c.RVResp.Make()
		_, enc := raft.VerifWireRequestVoteRequest(req)
		_, renc := raft.VerifWireRequestVoteResponse(resp)
		cost = uint64(len(enc))
		st.saw("RequestVoteRequest", enc)
		var got raft.RequestVoteResponse
		for try := 0; ; try++ {
			s.mu.Lock()
			s.calls, s.rvResp, s.rv = 0, resp, raft.RequestVoteRequest{}
			s.mu.Unlock()
			got, err = from.SendRequestVote(to, req)
			if err == nil || !transient(err) || try == 3 {
				break
			}
			st.retries++
			time.Sleep(10 * time.Millisecond)
		}
		if err != nil {
			ds = append(ds, classifyRPCError(c.RPC, err))
			break
		}
		arrived = true
		st.saw("RequestVoteResponse", renc)
		s.mu.Lock()
		calls, rec := s.calls, s.rv
		s.mu.Unlock()
		if calls != 1 {
			ds = append(ds, diff{"handler-calls:request-vote", fmt.Sprintf("SendRequestVote returned without error but the handler ran %d times", calls)})
			break
		}
		ds = diffRVReq(&req, &rec)
		ds = append(ds, diffRVResp(&resp, &got)...)
	case "InstallSnapshot":
		req, resp := c.ISReq.Make(), c.ISResp.Make()
		_, enc := raft.VerifWireInstallSnapshotRequest(req)
		_, renc := raft.VerifWireInstallSnapshotResponse(resp)
		cost = uint64(len(enc))
		st.saw("InstallSnapshotRequest", enc)
		var got raft.InstallSnapshotResponse
		for try := 0; ; try++ {
			s.mu.Lock()
			s.calls, s.isResp, s.is = 0, resp, raft.InstallSnapshotRequest{}
			s.mu.Unlock()
			got, err = from.SendInstallSnapshot(to, req)
			if err == nil || !transient(err) || try == 3 {
				break
			}
			st.retries++
			time.Sleep(10 * time.Millisecond)
		}
		if err != nil {
			ds = append(ds, classifyRPCError(c.RPC, err))
			st.refused("InstallSnapshotRequest.Bytes", len(req.Bytes))
			break
		}
		arrived = true
		st.saw("InstallSnapshotResponse", renc)
		s.mu.Lock()
		calls, rec := s.calls, s.is
		s.is = raft.InstallSnapshotRequest{}
		s.mu.Unlock()
		if calls != 1 {
			ds = append(ds, diff{"handler-calls:install-snapshot", fmt.Sprintf("SendInstallSnapshot returned without error but the handler ran %d times", calls)})
			break
		}
		ds = diffISReq(&req, &rec)
		ds = append(ds, diffISResp(&resp, &got)...)
		if len(ds) == 0 {
			st.passed("InstallSnapshotRequest.Bytes", len(req.Bytes))
			st.passed("serialized request", len(enc))
		}
	default:
		panic("codec: unknown rpc " + c.RPC)
	}
	for _, d := range ds {
		st.fail(d, "rpc", cost, ord, param)
	}
	return arrived
}

// ---- parts ----

type part struct {
	name string
	n    uint64
	gen  func(i uint64) *RPCCase
	rule string
}

func dirOf(i uint64) string {
	if i%2 == 1 {
		return "b->a"
	}
	return "a->b"
}

func aeLarge() []AEReq {
	one := func(n int) AEReq {
		return AEReq{LeaderID: "a", Term: 1, Entries: []Entry{{Index: 1, Term: 1, Type: 1, Data: Bytes{Len: n}}}}
	}
	five := AEReq{LeaderID: "a", Term: 1}
	for i := 0; i < 5; i++ {
		five.Entries = append(five.Entries, Entry{Index: uint64(i + 1), Term: 1, Type: 1, Data: Bytes{Len: MiB}})
	}
	// long suffixes of small entries: the number of entries, not the bytes, is large
	long := func(n int) AEReq {
		q := AEReq{LeaderID: "a", Term: 1}
		for i := 0; i < n; i++ {
			q.Entries = append(q.Entries, Entry{Index: uint64(i + 1), Term: 1, Type: Types[i%len(Types)], Data: SmallBytes[i%len(SmallBytes)]})
		}
		return q
	}
	return []AEReq{one(4*MiB - 64*KiB), one(4*MiB + 1), five, long(255), long(256), long(257), long(1000), long(4097), long(10000), long(65537)}
}

func rpcParts(tier string) []part {
	aeStar, isStar, aeBig := aeHeadPairwise(), isHeadStar(), aeLarge()
	ps := []part{
		{name: "request-vote", n: nRVReq * nRVResp,
			rule: "RequestVote: full product CandidateID{3} x Term{4} x LastLogIndex{4} x LastLogTerm{4} x Prevote{2} (384 requests) x full product of the response Term{4} x VoteGranted{2} (8): 3072 RPCs",
			gen: func(i uint64) *RPCCase {
				q, r := rvReqAt(i%nRVReq), rvRespAt(i/nRVReq)
				return &RPCCase{RPC: "RequestVote", Dir: dirOf(i), RVReq: &q, RVResp: &r}
			}},
		{name: "append-entries-response", n: nAEResp,
			rule: "AppendEntriesResponse: full product Term{4} x Success{2} x Index{4} (32) on the all-defaults request",
			gen: func(i uint64) *RPCCase {
				q, r := AEReq{NilEntries: true}, aeRespAt(i)
				return &RPCCase{RPC: "AppendEntries", Dir: dirOf(i), AEReq: &q, AEResp: &r}
			}},
		{name: "install-snapshot-response", n: nISResp,
			rule: "InstallSnapshotResponse: full product Term{4} x BytesWritten{0,1,2^32,max,-1,min} (24) on the all-defaults request",
			gen: func(i uint64) *RPCCase {
				q, r := ISReq{Configuration: Bytes{Nil: true}, Bytes: Bytes{Nil: true}}, isRespAt(i)
				return &RPCCase{RPC: "InstallSnapshot", Dir: dirOf(i), ISReq: &q, ISResp: &r}
			}},
		{name: "install-snapshot-small", n: nISHead * uint64(len(snapSmall)),
			rule: "InstallSnapshotRequest: full product LeaderID{3} x Term{4} x LastIncludedIndex{4} x LastIncludedTerm{4} x Configuration{nil,empty,1B,1KiB} x Offset{0,1,2^32,max,-1,min} x Done{2} (9216) x Bytes{nil,empty,1B,32KiB-1,32KiB,32KiB+1}: 55296 RPCs; the response cycles through its full product (24), rotated once per cycle",
			gen: func(i uint64) *RPCCase {
				q, r := isHeadAt(i%nISHead), isRespAt(rot(i, nISResp))
				q.Bytes = snapSmall[i/nISHead]
				return &RPCCase{RPC: "InstallSnapshot", Dir: dirOf(i), ISReq: &q, ISResp: &r}
			}},
		{name: "install-snapshot-large", n: uint64(len(isStar) * len(snapLarge)),
			rule: "InstallSnapshotRequest with Bytes{4MiB-64KiB, 4MiB+1, 8MiB} x star design over the other fields (all-defaults, every single field at each non-default domain value with the others at default, and the all-maximal message: 22 headers): 66 RPCs (the full product would move 75 GB)",
			gen: func(i uint64) *RPCCase {
				q, r := isStar[i%uint64(len(isStar))], isRespAt(rot(i, nISResp))
				q.Bytes = snapLarge[i/uint64(len(isStar))]
				return &RPCCase{RPC: "InstallSnapshot", Dir: dirOf(i), ISReq: &q, ISResp: &r}
			}},
		{name: "append-entries-large", n: uint64(len(aeBig)),
			rule: "AppendEntriesRequest with one entry of 4MiB-64KiB, one entry of 4MiB+1, five entries of 1MiB, and suffixes of 255, 256, 257, 1000, 4097, 10000 and 65537 small entries (the leader ships the whole missing suffix in one request, raft.go:1007-1023): 10 RPCs",
			gen: func(i uint64) *RPCCase {
				q, r := aeBig[i], aeRespAt(rot(i, nAEResp))
				return &RPCCase{RPC: "AppendEntries", Dir: dirOf(i), AEReq: &q, AEResp: &r}
			}},
		{name: "append-entries-len0-1", n: nAEHead * nList1,
			rule: "AppendEntriesRequest: full product LeaderID{3} x Term{4} x LeaderCommit{4} x PrevLogIndex{4} x PrevLogTerm{4} (768) x entry list {nil, empty, every single entry of Index{4} x Term{4} x Data{nil,empty,1B,1KiB} x EntryType{0,1,2}} (194): 148992 RPCs; the response cycles through its full product (32), rotated once per cycle",
			gen: func(i uint64) *RPCCase {
				q, r := aeHeadAt(i%nAEHead), aeRespAt(rot(i, nAEResp))
				list1At(i/nAEHead, &q)
				return &RPCCase{RPC: "AppendEntries", Dir: dirOf(i), AEReq: &q, AEResp: &r}
			}},
	}
	if tier == "thorough" {
		ps = append(ps, part{name: "append-entries-len2", n: uint64(len(aeStar)) * nList2,
			rule: "AppendEntriesRequest with 2 entries: every ordered pair of the 192 entry values (36864) x pairwise design over the header (every header in which at most two of the five fields differ from their default, i.e. the full product of every PAIR of header fields with the other three at default: 93, plus the all-maximal header: 94): 3465216 RPCs over gRPC; the FULL product 768 x 36864 = 28311552 is enumerated by the in-process wire suite (same converters and protobuf codec, no sockets)",
			gen: func(i uint64) *RPCCase {
				q, r := aeStar[i%uint64(len(aeStar))], aeRespAt(rot(i, nAEResp))
				list2At(i/uint64(len(aeStar)), &q)
				return &RPCCase{RPC: "AppendEntries", Dir: dirOf(i), AEReq: &q, AEResp: &r}
			}})
	}
	return ps
}

type partResult struct {
	Name  string  `json:"part"`
	Cases uint64  `json:"cases"`
	Done  uint64  `json:"done"`
	WallS float64 `json:"wall_s"`
	Rule  string  `json:"rule"`
}

type rpcOutcome struct {
	st         *stats
	parts      []partResult
	exhaustive bool
	pairs      int
	rpcs       uint64
	samples    []any
	bisect     map[string]any
	sender     []map[string]any
}

func numPairs() int {
	n := 16
	if v := os.Getenv("VERIF_CODEC_PAIRS"); v != "" {
		fmt.Sscan(v, &n)
	}
	if n < 1 {
		n = 1
	}
	return n
}

func runRPC(tier string, deadline time.Time, scratch string) (*rpcOutcome, error) {
	out := &rpcOutcome{st: newStats(), exhaustive: true}
	var pairs []*pair
	var firstErr error
	for i := 0; i < numPairs(); i++ {
		p, err := newPair()
		if err != nil {
			if firstErr == nil {
				firstErr = err
			}
			continue
		}
		pairs = append(pairs, p)
	}
	if len(pairs) == 0 {
		return nil, fmt.Errorf("could not start any transport pair: %v", firstErr)
	}
	defer func() {
		var wg sync.WaitGroup
		for _, p := range pairs {
			wg.Add(1)
			go func(p *pair) { defer wg.Done(); p.close() }(p)
		}
		wg.Wait()
	}()
	out.pairs = len(pairs)

	for _, pt := range rpcParts(tier) {
		pt := pt
		t0 := time.Now()
		var next, done uint64
		var wg sync.WaitGroup
		sts := make([]*stats, len(pairs))
		for w := range pairs {
			sts[w] = newStats()
			wg.Add(1)
			go func(p *pair, st *stats) {
				defer wg.Done()
				const batch = 16
				for {
					if time.Now().After(deadline) {
						return
					}
					lo := atomic.AddUint64(&next, batch) - batch
					if lo >= pt.n {
						return
					}
					hi := lo + batch
					if hi > pt.n {
						hi = pt.n
					}
					for i := lo; i < hi; i++ {
						p.run(pt.gen(i), st, i)
					}
					atomic.AddUint64(&done, hi-lo)
				}
			}(pairs[w], sts[w])
		}
		wg.Wait()
		for _, st := range sts {
			out.st.merge(st)
		}
		out.rpcs += done
		out.parts = append(out.parts, partResult{Name: "rpc:" + pt.name, Cases: pt.n, Done: done, WallS: time.Since(t0).Seconds(), Rule: pt.rule})
		if done < pt.n {
			out.exhaustive = false
		}
		if pt.n > 0 && len(out.samples) < 4 && (pt.name == "request-vote" || pt.name == "install-snapshot-small" || pt.name == "append-entries-len0-1" || pt.name == "append-entries-len2") {
			out.samples = append(out.samples, map[string]any{"suite": "rpc", "part": pt.name, "ordinal": pt.n - 1, "message": pt.gen(pt.n - 1)})
		}
	}

	// Exact position of the receive limit, on the otherwise all-defaults request.
	if time.Now().Before(deadline) {
		out.bisect = bisectLimit(pairs[0], out.st, &out.rpcs)
	} else {
		out.exhaustive = false
	}
	// The library's own sender, emulated statement by statement.
	sizes := []int{snapshotChunk - 1, snapshotChunk, 8 * MiB}
	if tier == "thorough" {
		sizes = []int{0, 1, snapshotChunk - 1, snapshotChunk, snapshotChunk + 1, 4*MiB - 64*KiB, 4*MiB + 1, 8 * MiB}
	}
	for i, n := range sizes {
		if time.Now().After(deadline) {
			out.exhaustive = false
			break
		}
		res, err := senderEmulation(pairs[0], dirOf(uint64(i)), n, filepath.Join(scratch, fmt.Sprintf("sender-%d", n)), out.st, &out.rpcs)
		if err != nil {
			return nil, err
		}
		out.sender = append(out.sender, res)
	}
	return out, nil
}

func bisectLimit(p *pair, st *stats, rpcs *uint64) map[string]any {
	try := func(n int, ord uint64) bool {
		*rpcs++
		c := &RPCCase{RPC: "InstallSnapshot", Dir: "a->b", ISReq: &ISReq{Configuration: Bytes{Nil: true}, Bytes: Bytes{Len: n}}, ISResp: &ISResp{}}
		return p.run(c, st, ord)
	}
	lo, hi := 4*MiB-64*KiB, 4*MiB+1
	res := map[string]any{"rule": "bisection over len(InstallSnapshotRequest.Bytes) in (4MiB-64KiB, 4MiB+1) with every other field at its default"}
	if !try(lo, 0) {
		res["note"] = "4MiB-64KiB did not arrive; no bisection"
		return res
	}
	if try(hi, 1) {
		res["note"] = "4MiB+1 arrived: no receive limit at the default position"
		return res
	}
	steps := uint64(2)
	for hi-lo > 1 {
		mid := lo + (hi-lo)/2
		if try(mid, steps) {
			lo = mid
		} else {
			hi = mid
		}
		steps++
	}
	res["largest_bytes_len_arrived"] = lo
	res["smallest_bytes_len_refused"] = hi
	res["rpcs"] = steps
	return res
}

// senderEmulation does what raft.go:1602-1639 (sendInstallSnapshot) does with
// the real snapshot storage and the real transport, without a cluster: open
// the newest snapshot file, read "a chunk" with io.Copy into a bytes.Buffer
// (that is: the whole rest of the file), Done = n < 32 KiB, send. The
// receiving side answers like raft.go:1398-1417 (BytesWritten = offset + n)
// and the harness reassembles what arrived.
func senderEmulation(p *pair, dir string, size int, scratchDir string, st *stats, rpcs *uint64) (map[string]any, error) {
	res := map[string]any{"snapshot_file_bytes": size}
	if err := os.MkdirAll(scratchDir, 0o755); err != nil {
		return nil, err
	}
	defer os.RemoveAll(scratchDir)
	store, err := raft.NewSnapshotStorage(scratchDir)
	if err != nil {
		return nil, fmt.Errorf("sender emulation: %v", err)
	}
	cfg := Bytes{Len: 64}.Make()
	f, err := store.NewSnapshotFile(7, 3, cfg)
	if err != nil {
		return nil, fmt.Errorf("sender emulation: %v", err)
	}
	if _, err := f.Write(pattern[:size]); err != nil {
		return nil, fmt.Errorf("sender emulation: %v", err)
	}
	if err := f.Close(); err != nil {
		return nil, fmt.Errorf("sender emulation: %v", err)
	}
	snap, err := store.SnapshotFile()
	if err != nil || snap == nil {
		return nil, fmt.Errorf("sender emulation: no snapshot file: %v", err)
	}
	defer snap.Close()
	md := snap.Metadata()
	from, to := p.route(dir)
	var received []byte
	var reqs []map[string]any
	param := func() json.RawMessage {
		b, _ := json.Marshal(map[string]any{"sender_emulation": map[string]any{"snapshot_file_bytes": size, "dir": dir}})
		return b
	}
	complete := false
	for round := 0; round < 4; round++ {
		offset, err := snap.Seek(0, io.SeekCurrent)
		if err != nil {
			return nil, err
		}
		var buf bytes.Buffer
		n, err := io.Copy(&buf, snap)
		if err != nil {
			return nil, err
		}
		req := raft.InstallSnapshotRequest{LeaderID: "a", Term: 1, LastIncludedIndex: md.LastIncludedIndex, LastIncludedTerm: md.LastIncludedTerm,
			Configuration: md.Configuration, Offset: offset, Bytes: buf.Bytes(), Done: n < snapshotChunk}
		_, enc := raft.VerifWireInstallSnapshotRequest(req)
		st.saw("InstallSnapshotRequest", enc)
		resp := raft.InstallSnapshotResponse{Term: 1, BytesWritten: offset + n}
		p.s.mu.Lock()
		p.s.calls, p.s.isResp, p.s.is = 0, resp, raft.InstallSnapshotRequest{}
		p.s.mu.Unlock()
		*rpcs++
		got, err := from.SendInstallSnapshot(to, req)
		r := map[string]any{"offset": offset, "bytes": n, "done": req.Done, "serialized_bytes": len(enc)}
		if err != nil {
			d := classifyRPCError("InstallSnapshot", err)
			r["outcome"] = "refused: " + err.Error()
			reqs = append(reqs, r)
			d.detail = fmt.Sprintf("sender emulation (raft.go:1602-1639): a snapshot file of %d bytes is sent as ONE request of %d bytes at offset %d; %s", size, n, offset, d.detail)
			st.fail(d, "rpc", uint64(len(enc)), uint64(size), param)
			st.refused("InstallSnapshotRequest.Bytes", int(n))
			break
		}
		r["outcome"] = "ok"
		reqs = append(reqs, r)
		p.s.mu.Lock()
		rec := p.s.is
		p.s.is = raft.InstallSnapshotRequest{}
		p.s.mu.Unlock()
		_, renc := raft.VerifWireInstallSnapshotResponse(resp)
		st.saw("InstallSnapshotResponse", renc)
		ds := diffISReq(&req, &rec)
		ds = append(ds, diffISResp(&resp, &got)...)
		for _, d := range ds {
			st.fail(d, "rpc", uint64(len(enc)), uint64(size), param)
		}
		if rec.Offset == int64(len(received)) {
			received = append(received, rec.Bytes...)
		}
		if req.Done {
			complete = true
			break
		}
	}
	res["requests"] = reqs
	res["reassembled_equal"] = complete && bytes.Equal(received, pattern[:size])
	if complete && !bytes.Equal(received, pattern[:size]) {
		st.fail(diff{"snapshot-reassembly-mismatch", fmt.Sprintf("sender emulation: a %d-byte snapshot file arrived as %d bytes or with different content", size, len(received))}, "rpc", uint64(size), uint64(size), param)
	}
	return res, nil
}
