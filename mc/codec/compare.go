package codec

import (
	"bytes"
	"encoding/json"
	"fmt"
	"hash/maphash"
	"regexp"
	"sort"
	"strconv"
	"sync"

	"github.com/jmsadair/raft"
)

// A diff is one oracle failure of one case.
type diff struct {
	sig    string
	detail string
}

func bytesEq(a, b []byte) bool { return len(a) == len(b) && bytes.Equal(a, b) } // nil == empty

func describe(b []byte) string {
	if b == nil {
		return "nil"
	}
	if len(b) <= 8 {
		return fmt.Sprintf("%d B %x", len(b), b)
	}
	return fmt.Sprintf("%d B %x..", len(b), b[:8])
}

var typeNames = map[uint32]string{0: "noop", 1: "operation", 2: "configuration"}

func typeName(t uint32) string {
	if n, ok := typeNames[t]; ok {
		return n
	}
	return strconv.Itoa(int(t))
}

func fieldDiff(ds []diff, msg, field string, sent, got any) []diff {
	return append(ds, diff{"field-mismatch:" + msg + "." + field, fmt.Sprintf("%s.%s sent %v, arrived %v", msg, field, sent, got)})
}

// diffEntries compares entry lists on the RPC path. LogEntry.Offset is not
// compared: it is a storage-only field (see entryAt).
func diffEntries(ds []diff, msg string, sent, got []*raft.LogEntry, offsetSeen *uint64) []diff {
	if len(sent) != len(got) {
		return append(ds, diff{"entries-count:" + msg, fmt.Sprintf("%s.Entries: sent %d entries, arrived %d", msg, len(sent), len(got))})
	}
	for i := range sent {
		s, g := sent[i], got[i]
		if g == nil {
			ds = append(ds, diff{"entry-lost:" + msg, fmt.Sprintf("%s.Entries[%d] arrived as nil", msg, i)})
			continue
		}
		if s.Index != g.Index {
			ds = fieldDiff(ds, msg, "Entries.Index", s.Index, g.Index)
		}
		if s.Term != g.Term {
			ds = fieldDiff(ds, msg, "Entries.Term", s.Term, g.Term)
		}
		if s.EntryType != g.EntryType {
			ds = append(ds, diff{"entry-type-mangled:" + typeName(uint32(s.EntryType)), fmt.Sprintf("%s.Entries[%d].EntryType sent %d, arrived %d", msg, i, s.EntryType, g.EntryType)})
		}
		if !bytesEq(s.Data, g.Data) {
			ds = fieldDiff(ds, msg, "Entries.Data", describe(s.Data), describe(g.Data))
		}
		if g.Offset != 0 && offsetSeen != nil {
			*offsetSeen++
		}
	}
	return ds
}

func diffAEReq(s, g *raft.AppendEntriesRequest, offsetSeen *uint64) []diff {
	const m = "AppendEntriesRequest"
	var ds []diff
	if s.LeaderID != g.LeaderID {
		ds = fieldDiff(ds, m, "LeaderID", strconv.Quote(s.LeaderID), strconv.Quote(g.LeaderID))
	}
	if s.Term != g.Term {
		ds = fieldDiff(ds, m, "Term", s.Term, g.Term)
	}
	if s.LeaderCommit != g.LeaderCommit {
		ds = fieldDiff(ds, m, "LeaderCommit", s.LeaderCommit, g.LeaderCommit)
	}
	if s.PrevLogIndex != g.PrevLogIndex {
		ds = fieldDiff(ds, m, "PrevLogIndex", s.PrevLogIndex, g.PrevLogIndex)
	}
	if s.PrevLogTerm != g.PrevLogTerm {
		ds = fieldDiff(ds, m, "PrevLogTerm", s.PrevLogTerm, g.PrevLogTerm)
	}
	return diffEntries(ds, m, s.Entries, g.Entries, offsetSeen)
}

func diffAEResp(s, g *raft.AppendEntriesResponse) []diff {
	const m = "AppendEntriesResponse"
	var ds []diff
	if s.Term != g.Term {
		ds = fieldDiff(ds, m, "Term", s.Term, g.Term)
	}
	if s.Success != g.Success {
		ds = fieldDiff(ds, m, "Success", s.Success, g.Success)
	}
	if s.Index != g.Index {
		ds = fieldDiff(ds, m, "Index", s.Index, g.Index)
	}
	return ds
}

func diffRVReq(s, g *raft.RequestVoteRequest) []diff {
	const m = "RequestVoteRequest"
	var ds []diff
	if s.CandidateID != g.CandidateID {
		ds = fieldDiff(ds, m, "CandidateID", strconv.Quote(s.CandidateID), strconv.Quote(g.CandidateID))
	}
	if s.Term != g.Term {
		ds = fieldDiff(ds, m, "Term", s.Term, g.Term)
	}
	if s.LastLogIndex != g.LastLogIndex {
		ds = fieldDiff(ds, m, "LastLogIndex", s.LastLogIndex, g.LastLogIndex)
	}
	if s.LastLogTerm != g.LastLogTerm {
		ds = fieldDiff(ds, m, "LastLogTerm", s.LastLogTerm, g.LastLogTerm)
	}
	if s.Prevote != g.Prevote {
		ds = fieldDiff(ds, m, "Prevote", s.Prevote, g.Prevote)
	}
	return ds
}

func diffRVResp(s, g *raft.RequestVoteResponse) []diff {
	const m = "RequestVoteResponse"
	var ds []diff
	if s.Term != g.Term {
		ds = fieldDiff(ds, m, "Term", s.Term, g.Term)
	}
	if s.VoteGranted != g.VoteGranted {
		ds = fieldDiff(ds, m, "VoteGranted", s.VoteGranted, g.VoteGranted)
	}
	return ds
}

func diffISReq(s, g *raft.InstallSnapshotRequest) []diff {
	const m = "InstallSnapshotRequest"
	var ds []diff
	if s.LeaderID != g.LeaderID {
		ds = fieldDiff(ds, m, "LeaderID", strconv.Quote(s.LeaderID), strconv.Quote(g.LeaderID))
	}
	if s.Term != g.Term {
		ds = fieldDiff(ds, m, "Term", s.Term, g.Term)
	}
	if s.LastIncludedIndex != g.LastIncludedIndex {
		ds = fieldDiff(ds, m, "LastIncludedIndex", s.LastIncludedIndex, g.LastIncludedIndex)
	}
	if s.LastIncludedTerm != g.LastIncludedTerm {
		ds = fieldDiff(ds, m, "LastIncludedTerm", s.LastIncludedTerm, g.LastIncludedTerm)
	}
	if !bytesEq(s.Configuration, g.Configuration) {
		ds = fieldDiff(ds, m, "Configuration", describe(s.Configuration), describe(g.Configuration))
	}
	if !bytesEq(s.Bytes, g.Bytes) {
		ds = fieldDiff(ds, m, "Bytes", describe(s.Bytes), describe(g.Bytes))
	}
	if s.Offset != g.Offset {
		ds = fieldDiff(ds, m, "Offset", s.Offset, g.Offset)
	}
	if s.Done != g.Done {
		ds = fieldDiff(ds, m, "Done", s.Done, g.Done)
	}
	return ds
}

func diffISResp(s, g *raft.InstallSnapshotResponse) []diff {
	const m = "InstallSnapshotResponse"
	var ds []diff
	if s.Term != g.Term {
		ds = fieldDiff(ds, m, "Term", s.Term, g.Term)
	}
	if s.BytesWritten != g.BytesWritten {
		ds = fieldDiff(ds, m, "BytesWritten", s.BytesWritten, g.BytesWritten)
	}
	return ds
}

var (
	reLimit = regexp.MustCompile(`larger than max \((\d+) vs\. (\d+)\)`)
	reCode  = regexp.MustCompile(`code = (\w+)`)
)

var rpcSlug = map[string]string{"AppendEntries": "append-entries", "RequestVote": "request-vote", "InstallSnapshot": "install-snapshot"}

// classifyRPCError turns the error of a Send* call on a VALID message into a
// signature. A refusal because of the receive limit of the RPC layer is one
// class per RPC type and limit; anything else is classified by status code.
func classifyRPCError(rpc string, err error) diff {
	msg := err.Error()
	if m := reLimit.FindStringSubmatch(msg); m != nil {
		limit, _ := strconv.Atoi(m[2])
		lim := fmt.Sprintf("%dB", limit)
		if limit == grpcDefault {
			lim = "4MiB"
		}
		what := "request"
		if rpc == "InstallSnapshot" {
			what = "payload"
		}
		return diff{fmt.Sprintf("rpc-refused:%s-%s-over-%s", rpcSlug[rpc], what, lim),
			fmt.Sprintf("Send%s of a valid request failed: the receiver refused the message as too large (%s bytes serialized, limit %s): %s", rpc, m[1], m[2], msg)}
	}
	code := "unknown"
	if m := reCode.FindStringSubmatch(msg); m != nil {
		code = m[1]
	}
	return diff{"rpc-error:" + rpcSlug[rpc] + ":" + code, fmt.Sprintf("Send%s of a valid request failed: %s", rpc, msg)}
}

// ---- collector ----

type sigInfo struct {
	count uint64
	cost  uint64 // size of the failing case; the smallest one is reported
	ord   uint64
	diff  diff
	suite string
	param json.RawMessage
}

// stats is per worker; merged at the end.
type stats struct {
	counts     map[string]uint64 // per message/record type
	hashes     []uint64          // one per message: hash(type, encoded form)
	sigs       map[string]*sigInfo
	offsetSeen uint64
	retries    uint64
	maxPassed  map[string]int // largest payload (bytes) that arrived equal, per kind
	minRefused map[string]int
}

func newStats() *stats {
	return &stats{counts: map[string]uint64{}, sigs: map[string]*sigInfo{}, maxPassed: map[string]int{}, minRefused: map[string]int{}}
}

func (s *stats) fail(d diff, suite string, cost, ord uint64, param func() json.RawMessage) {
	si := s.sigs[d.sig]
	if si == nil {
		si = &sigInfo{cost: ^uint64(0), ord: ^uint64(0)}
		s.sigs[d.sig] = si
	}
	si.count++
	if cost < si.cost || (cost == si.cost && ord < si.ord) {
		si.cost, si.ord, si.diff, si.suite, si.param = cost, ord, d, suite, param()
	}
}

func (s *stats) passed(kind string, n int) {
	if n > s.maxPassed[kind] {
		s.maxPassed[kind] = n
	}
}

func (s *stats) refused(kind string, n int) {
	if m, ok := s.minRefused[kind]; !ok || n < m {
		s.minRefused[kind] = n
	}
}

func (s *stats) merge(o *stats) {
	for k, v := range o.counts {
		s.counts[k] += v
	}
	s.hashes = append(s.hashes, o.hashes...)
	o.hashes = nil
	for k, v := range o.sigs {
		si := s.sigs[k]
		if si == nil {
			c := *v
			s.sigs[k] = &c
			continue
		}
		si.count += v.count
		if v.cost < si.cost || (v.cost == si.cost && v.ord < si.ord) {
			si.cost, si.ord, si.diff, si.suite, si.param = v.cost, v.ord, v.diff, v.suite, v.param
		}
	}
	s.offsetSeen += o.offsetSeen
	s.retries += o.retries
	for k, v := range o.maxPassed {
		s.passed(k, v)
	}
	for k, v := range o.minRefused {
		s.refused(k, v)
	}
}

var hseed = maphash.MakeSeed()

// encHash identifies a message by its type and its encoded form.
func encHash(typ string, enc []byte) uint64 {
	var h maphash.Hash
	h.SetSeed(hseed)
	h.WriteString(typ)
	h.WriteByte(0)
	h.Write(enc)
	return h.Sum64()
}

func (s *stats) saw(typ string, enc []byte) {
	s.counts[typ]++
	s.hashes = append(s.hashes, encHash(typ, enc))
}

// distinct counts the distinct hashes, excluding the given trivial ones.
func distinct(hashes []uint64, trivial map[uint64]bool) uint64 {
	if len(hashes) == 0 {
		return 0
	}
	// Partition by the top byte, sort the buckets in parallel.
	var cnt [256]int
	for _, h := range hashes {
		cnt[h>>56]++
	}
	buckets := make([][]uint64, 256)
	for i := range buckets {
		buckets[i] = make([]uint64, 0, cnt[i])
	}
	for _, h := range hashes {
		buckets[h>>56] = append(buckets[h>>56], h)
	}
	res := make([]uint64, 256)
	var wg sync.WaitGroup
	sem := make(chan struct{}, 16)
	for i := range buckets {
		wg.Add(1)
		go func(i int) {
			defer wg.Done()
			sem <- struct{}{}
			defer func() { <-sem }()
			b := buckets[i]
			sort.Slice(b, func(x, y int) bool { return b[x] < b[y] })
			var n uint64
			for j := range b {
				if (j == 0 || b[j] != b[j-1]) && !trivial[b[j]] {
					n++
				}
			}
			res[i] = n
		}(i)
	}
	wg.Wait()
	var total uint64
	for _, n := range res {
		total += n
	}
	return total
}
