package crashfs

import (
	"bytes"
	"fmt"
	"io"
	"os"
	"path/filepath"
	"strings"

	"github.com/jmsadair/raft"

	"verif/mc/sim"
)

// SnapOp is one operation of a snapshot-storage program: "snap" =
// NewSnapshotFile + Writes + Close|Discard, "read" = SnapshotFile + read all.
type SnapOp struct {
	Op     string `json:"op"`
	Index  uint64 `json:"index,omitempty"`
	Term   uint64 `json:"term,omitempty"`
	Conf   []byte `json:"conf,omitempty"`
	Writes []int  `json:"writes,omitempty"`
	End    string `json:"end,omitempty"` // close | discard
}

func (o SnapOp) String() string {
	if o.Op == "read" {
		return "SnapshotFile+ReadAll"
	}
	var w []string
	for _, n := range o.Writes {
		w = append(w, fmt.Sprintf("Write(%dB)", n))
	}
	end := "Close"
	if o.End == "discard" {
		end = "Discard"
	}
	return fmt.Sprintf("NewSnapshotFile(%d,t%d,conf=%dB)%s+%s", o.Index, o.Term, len(o.Conf), plus(w), end)
}

func plus(w []string) string {
	if len(w) == 0 {
		return ""
	}
	return "+" + strings.Join(w, "+")
}

// SnapCase: Pre completed snapshots already present, then Ops, crash at Crash.
type SnapCase struct {
	Pre   int      `json:"pre"`
	Ops   []SnapOp `json:"ops"`
	Crash *Point   `json:"crash,omitempty"`
}

func (c *SnapCase) String() string {
	var s []string
	for _, o := range c.Ops {
		s = append(s, o.String())
	}
	r := fmt.Sprintf("[%d snapshots present] NewSnapshotStorage; %s", c.Pre, strings.Join(s, "; "))
	if c.Crash != nil {
		r += " !crash@" + c.Crash.String()
	}
	return r
}

var payloadCache = map[[3]uint64][]byte{}

// payload returns the bytes of write number w of the snapshot with the given
// index (cached; callers never modify it).
func payload(index uint64, w, n int) []byte {
	key := [3]uint64{index, uint64(w), uint64(n)}
	if b, ok := payloadCache[key]; ok {
		return b
	}
	b := mkPayload(index, w, n)
	payloadCache[key] = b
	return b
}

func mkPayload(index uint64, w, n int) []byte {
	b := make([]byte, n)
	for i := range b {
		b[i] = byte((uint64(i)*13 + index*7 + uint64(w)*101 + 3) % 253)
	}
	return b
}

var SnapPre = []int{0, 1, 2, 11, 12, 13, 14, 40}

const big = 40 * 1024

// write patterns of the full alphabet, quick tier: 0..3 writes, every size in
// every position at least once
var quickPatterns = [][]int{{}, {0}, {10}, {big}, {10, big}, {big, 10}, {10, 0, 10}, {big, 10, big}}

func allPatterns() [][]int {
	sizes := []int{0, 10, big}
	out := [][]int{{}}
	var rec func(p []int, n int)
	rec = func(p []int, n int) {
		if len(p) == n {
			out = append(out, append([]int(nil), p...))
			return
		}
		for _, s := range sizes {
			rec(append(p, s), n)
		}
	}
	for n := 1; n <= 3; n++ {
		rec(nil, n)
	}
	return out
}

func SnapRule(thorough bool) string {
	if thorough {
		return "programs of 1..4 operations; last operation from the full alphabet F = {NewSnapshotFile + w + Close, NewSnapshotFile + w + Discard : w any of the 40 sequences of 0..3 Writes with sizes in {0 B, 10 B, 40 KiB}} + {SnapshotFile+ReadAll} (81 operations); earlier operations from the reduced alphabet R = {snap[10B]+Close, snap[10B]+Discard, snap[40KiB]+Close, SnapshotFile+ReadAll}; each program with 0, 1, 2, 11, 12, 13, 14 and 40 completed snapshots already present"
	}
	return "programs of 1..4 operations; last operation from the full alphabet F = {NewSnapshotFile + w + Close, NewSnapshotFile + w + Discard : w in {[],[0B],[10B],[40KiB],[10B,40KiB],[40KiB,10B],[10B,0B,10B],[40KiB,10B,40KiB]}} + {SnapshotFile+ReadAll} (17 operations); earlier operations from the reduced alphabet R = {snap[10B]+Close, snap[10B]+Discard, SnapshotFile+ReadAll}; each program with 0, 1, 2, 11, 12, 13, 14 and 40 completed snapshots already present"
}

func snapAlphabet(pos int, full, thorough bool) []SnapOp {
	var conf []byte
	if pos%2 == 1 {
		conf = []byte(fmt.Sprintf("cfg-%d", pos))
	}
	mk := func(w []int, end string) SnapOp {
		return SnapOp{Op: "snap", Index: 1000 + uint64(pos), Term: 5, Conf: conf, Writes: w, End: end}
	}
	var ops []SnapOp
	if full {
		pats := quickPatterns
		if thorough {
			pats = allPatterns()
		}
		for _, w := range pats {
			ops = append(ops, mk(w, "close"))
		}
		for _, w := range pats {
			ops = append(ops, mk(w, "discard"))
		}
	} else {
		ops = append(ops, mk([]int{10}, "close"), mk([]int{10}, "discard"))
		if thorough {
			ops = append(ops, mk([]int{big}, "close"))
		}
	}
	return append(ops, SnapOp{Op: "read"})
}

// EnumSnapPrograms visits (pre, program) units, shortest programs first.
func EnumSnapPrograms(maxLen int, thorough bool, visit func(idx int, pre int, prog []SnapOp) bool) int {
	idx := 0
	stop := false
	var dfs func(L, pre int, prog []SnapOp)
	dfs = func(L, pre int, prog []SnapOp) {
		if stop {
			return
		}
		if len(prog) == L {
			if !visit(idx, pre, prog) {
				stop = true
			}
			idx++
			return
		}
		for _, op := range snapAlphabet(len(prog)+1, len(prog) == L-1, thorough) {
			dfs(L, pre, append(prog[:len(prog):len(prog)], op))
		}
	}
	for L := 1; L <= maxLen && !stop; L++ {
		for _, pre := range SnapPre {
			dfs(L, pre, nil)
		}
	}
	return idx
}

// ---------------------------------------------------------------------------
// pre-existing snapshots: created once per process through the real API with
// no interceptor, then copied into each run directory.

type snapTemplate struct {
	dir   string
	snaps []*sim.Snap
	names []string        // snapshot directory names, oldest first
	skip  map[string]bool // the same as a set
	hash  uint64          // full image, to prove at the end that no run modified it
}

// lay puts the pre-existing snapshots into a run directory: directories are
// created, the two files of each snapshot are hard links to the template (the
// library opens completed snapshots read-only; verifyTemplates proves it).
func (t *snapTemplate) lay(dst string) error {
	if err := os.MkdirAll(filepath.Join(dst, "snapshots"), 0o755); err != nil {
		return err
	}
	for _, n := range t.names {
		d := filepath.Join(dst, "snapshots", n)
		if err := os.Mkdir(d, 0o755); err != nil {
			return err
		}
		for _, f := range []string{"snapshot.bin", "metadata.json"} {
			if err := os.Link(filepath.Join(t.dir, "snapshots", n, f), filepath.Join(d, f)); err != nil {
				return err
			}
		}
	}
	return nil
}

// VerifyTemplates re-digests every template; a difference means some run
// wrote into a pre-existing snapshot through a hard link.
func VerifyTemplates() error {
	for n, t := range templates {
		if h := TakeImage(t.dir).Hash; h != t.hash {
			return fmt.Errorf("the template of %d pre-existing snapshots was modified by a run", n)
		}
	}
	return nil
}

var templates = map[int]*snapTemplate{}

func template(n int) (*snapTemplate, error) {
	if t := templates[n]; t != nil {
		return t, nil
	}
	dir := filepath.Join(Scratch(), fmt.Sprintf("tpl-%d", n))
	_ = os.RemoveAll(dir)
	if err := os.MkdirAll(dir, 0o755); err != nil {
		return nil, err
	}
	t := &snapTemplate{dir: dir}
	st, err := raft.NewSnapshotStorage(dir)
	if err != nil {
		return nil, err
	}
	for i := 0; i < n; i++ {
		idx := uint64(i + 1)
		conf := []byte(fmt.Sprintf("pre-%d", i))
		f, err := st.NewSnapshotFile(idx, 1, conf)
		if err != nil {
			return nil, err
		}
		data := payload(idx, 0, 10)
		if _, err := f.Write(data); err != nil {
			return nil, err
		}
		if err := f.Close(); err != nil {
			return nil, err
		}
		t.snaps = append(t.snaps, &sim.Snap{Meta: raft.SnapshotMetadata{LastIncludedIndex: idx, LastIncludedTerm: 1, Configuration: conf}, Data: data})
	}
	Uninstall()
	if got := countSnapDirs(dir); got != n {
		return nil, fmt.Errorf("template for %d snapshots has %d snapshot directories (timestamp names collided?)", n, got)
	}
	ents, _ := os.ReadDir(filepath.Join(dir, "snapshots"))
	t.skip = map[string]bool{}
	for _, e := range ents {
		t.names = append(t.names, e.Name())
		t.skip[e.Name()] = true
	}
	t.hash = TakeImage(dir).Hash
	templates[n] = t
	return t, nil
}

func countSnapDirs(dir string) int {
	ents, _ := os.ReadDir(filepath.Join(dir, "snapshots"))
	n := 0
	for _, e := range ents {
		if e.IsDir() && snapName.MatchString(e.Name()) {
			n++
		}
	}
	return n
}

func snapImageClass(im *Image) string {
	tmpDir := ""
	nonEmpty := false
	for _, e := range im.Entries {
		if e.Dir && strings.HasPrefix(filepath.Base(e.Path), "tmp") {
			tmpDir = e.Path
		} else if tmpDir != "" && strings.HasPrefix(e.Path, tmpDir+"/") {
			nonEmpty = true
		}
	}
	switch {
	case nonEmpty:
		return "non-empty-tmp-snapshot-dir"
	case tmpDir != "":
		return "empty-tmp-snapshot-dir"
	}
	return "clean"
}

func metaEqual(a, b raft.SnapshotMetadata) bool {
	return a.LastIncludedIndex == b.LastIncludedIndex && a.LastIncludedTerm == b.LastIncludedTerm && bytes.Equal(a.Configuration, b.Configuration)
}

func snapString(s *sim.Snap) string {
	if s == nil {
		return "none"
	}
	return fmt.Sprintf("{index=%d term=%d conf=%q %dB}", s.Meta.LastIncludedIndex, s.Meta.LastIncludedTerm, s.Meta.Configuration, len(s.Data))
}

func snapsString(l []*sim.Snap) string {
	var s []string
	for _, x := range l {
		s = append(s, snapString(x))
	}
	return strings.Join(s, " | ")
}

// checkSnapshotFile: SnapshotFile() returns one of the allowed snapshots
// (nil = "none"), complete and with matching metadata.
func checkSnapshotFile(st raft.SnapshotStorage, allowed []*sim.Snap, all []*sim.Snap, inflight *sim.Snap, ndirs int, cls, ctx string) (*Failure, string) {
	f, err := st.SnapshotFile()
	if err != nil {
		return failf("snapshotfile-error:"+errClass(err)+":"+cls, "SnapshotFile() returned an error: %v; allowed %s; %s", err, snapsString(allowed), ctx), ""
	}
	if f == nil {
		for _, a := range allowed {
			if a == nil {
				return nil, "none"
			}
		}
		return failf("closed-snapshot-not-returned:"+cls, "SnapshotFile() returned no snapshot, allowed %s; %s", snapsString(allowed), ctx), "none"
	}
	data, err := io.ReadAll(f)
	meta := f.Metadata()
	_ = f.Close()
	if err != nil {
		return failf("snapshot-read-error:"+cls, "reading the returned snapshot: %v; %s", err, ctx), ""
	}
	got := &sim.Snap{Meta: meta, Data: data}
	for _, a := range allowed {
		if a != nil && metaEqual(a.Meta, meta) && bytes.Equal(a.Data, data) {
			return nil, snapString(got)
		}
	}
	bucket := "N<=12"
	if ndirs > 12 {
		bucket = "N>12"
	}
	if inflight != nil && metaEqual(inflight.Meta, meta) {
		return failf("partial-snapshot-visible:"+cls, "SnapshotFile() returned the in-flight snapshot %s with %d of %d bytes; %s", snapString(got), len(data), len(inflight.Data), ctx), snapString(got)
	}
	for _, o := range all {
		if metaEqual(o.Meta, meta) {
			if bytes.Equal(o.Data, data) {
				return failf("stale-snapshot-returned:"+bucket, "SnapshotFile() returned the older snapshot %s with %d snapshot directories present, allowed %s; %s", snapString(got), ndirs, snapsString(allowed), ctx), snapString(got)
			}
			return failf("corrupt-snapshot-returned:"+bucket, "SnapshotFile() returned %s whose bytes differ from what was written; %s", snapString(got), ctx), snapString(got)
		}
	}
	return failf("unknown-snapshot-returned:"+cls, "SnapshotFile() returned %s, allowed %s; %s", snapString(got), snapsString(allowed), ctx), snapString(got)
}

type snapOutcome struct {
	Fail      *Failure
	Infra     string
	Trace     []CallRec
	Bounds    []int
	PreImg    uint64
	PostImg   uint64
	CrashImg  *Image
	Checks    int
	Denied    int
	Inflight  string
	HitCall   string
	Recovered string
}

func lastSnap(d *sim.SnapDisk) *sim.Snap {
	if len(d.Snaps) == 0 {
		return nil
	}
	return d.Snaps[len(d.Snaps)-1]
}

// RunSnapCase executes a snapshot-storage case on a fresh directory.
func RunSnapCase(c *SnapCase, record bool) (out *snapOutcome) {
	out = &snapOutcome{}
	tpl, err := template(c.Pre)
	if err != nil {
		out.Infra = "cannot create pre-existing snapshots: " + err.Error()
		return
	}
	dir := FreshDir()
	if err := tpl.lay(dir); err != nil {
		out.Infra = "cannot copy pre-existing snapshots: " + err.Error()
		return
	}
	ResetTemp()
	defer Uninstall()
	disk := &sim.SnapDisk{Snaps: append([]*sim.Snap(nil), tpl.snaps...)}
	model := &sim.MemSnapStore{Disk: disk}
	allowed := []*sim.Snap{lastSnap(disk)}
	var inflightSnap *sim.Snap
	inj := NewInjector(dir, c.Crash)
	bounds := []int{0}
	inflight := "NewSnapshotStorage"
	inj.Install()
	func() {
		defer func() {
			if r := recover(); r != nil && !inj.Dead {
				out.Fail = failf("panic:snapshot", "panic in a live incarnation during %s: %v (case %s)", inflight, r, c)
			}
		}()
		st, err := raft.NewSnapshotStorage(dir)
		if inj.Dead {
			return
		}
		if err != nil {
			out.Fail = failf("model-disagreement:snapshot-constructor", "NewSnapshotStorage over %d completed snapshots: %v", c.Pre, err)
			return
		}
		bounds = append(bounds, len(inj.Trace))
		for oi, op := range c.Ops {
			if record && oi == len(c.Ops)-1 {
				out.PreImg = TakeImageSkip(dir, tpl.skip).Hash
			}
			inflight = fmt.Sprintf("op %d %s", oi+1, op)
			if op.Op == "read" {
				f, rec := checkSnapshotFile(st, []*sim.Snap{lastSnap(disk)}, disk.Snaps, nil, countSnapDirs(dir), "no-crash", "crash-free run; case: "+c.String())
				_ = rec
				if inj.Dead {
					return
				}
				out.Checks++
				if f != nil {
					out.Fail = f
					return
				}
				bounds = append(bounds, len(inj.Trace))
				continue
			}
			before := lastSnap(disk)
			full := &sim.Snap{Meta: raft.SnapshotMetadata{LastIncludedIndex: op.Index, LastIncludedTerm: op.Term, Configuration: op.Conf}}
			for w, n := range op.Writes {
				full.Data = append(full.Data, payload(op.Index, w, n)...)
			}
			died := func() bool {
				if !inj.Dead {
					return false
				}
				allowed = []*sim.Snap{before}
				if op.End == "close" {
					allowed = append(allowed, full)
				}
				inflightSnap = full
				return true
			}
			mf, _ := model.NewSnapshotFile(op.Index, op.Term, op.Conf)
			rf, err := st.NewSnapshotFile(op.Index, op.Term, op.Conf)
			if died() {
				return
			}
			out.Checks++
			if err != nil {
				out.Fail = failf("model-disagreement:newsnapshotfile", "NewSnapshotFile: %v; case: %s", err, c)
				return
			}
			if !metaEqual(rf.Metadata(), full.Meta) {
				out.Fail = failf("model-disagreement:metadata", "Metadata() of the new file is %+v; case: %s", rf.Metadata(), c)
				return
			}
			for w, n := range op.Writes {
				p := payload(op.Index, w, n)
				_, _ = mf.Write(p)
				k, err := rf.Write(p)
				if died() {
					return
				}
				out.Checks++
				if err != nil || k != n {
					out.Fail = failf("model-disagreement:write", "Write(%d bytes) returned (%d,%v); case: %s", n, k, err, c)
					return
				}
			}
			if op.End == "close" {
				_ = mf.Close()
				err = rf.Close()
			} else {
				_ = mf.Discard()
				err = rf.Discard()
			}
			if died() {
				return
			}
			out.Checks++
			if err != nil {
				out.Fail = failf("model-disagreement:"+op.End, "%s returned %v; case: %s", op.End, err, c)
				return
			}
			if record {
				if got := countSnapDirs(dir); got != len(disk.Snaps) {
					out.Infra = fmt.Sprintf("%d snapshot directories on disk, %d closed snapshots in the model (timestamp names collided?); case: %s", got, len(disk.Snaps), c)
					return
				}
			}
			bounds = append(bounds, len(inj.Trace))
		}
		if c.Crash == nil {
			return
		}
		if c.Crash.K != len(inj.Trace) {
			out.Infra = fmt.Sprintf("crash point %v not reached: %d calls (case %s)", *c.Crash, len(inj.Trace), c)
			return
		}
		inj.Kill()
		inflight = "none (after the last call)"
		allowed = []*sim.Snap{lastSnap(disk)}
	}()
	Uninstall()
	out.Denied = inj.DeniedAfter
	out.Trace, out.Bounds, out.Inflight = inj.Trace, bounds, inflight
	if inj.Hit != nil {
		out.HitCall = inj.Hit.String()
	}
	if out.Fail != nil || out.Infra != "" {
		return
	}
	if c.Crash == nil {
		out.PostImg = TakeImageSkip(dir, tpl.skip).Hash
		return
	}
	if !inj.Dead {
		out.Infra = "run ended without reaching its crash point: " + c.String()
		return
	}
	out.CrashImg = TakeImageSkip(dir, tpl.skip)
	cls := snapImageClass(out.CrashImg)
	ndirs := countSnapDirs(dir)
	ctx := fmt.Sprintf("crashed during %s at %s; image class %s, %d completed snapshot directories; case: %s", inflight, out.HitCall, cls, ndirs, c)

	// recovery, first attempt
	st, err := raft.NewSnapshotStorage(dir)
	if err != nil {
		second := "also fails"
		if _, err2 := raft.NewSnapshotStorage(dir); err2 == nil {
			second = "succeeds"
		}
		out.Fail = failf("constructor-error:"+cls, "NewSnapshotStorage failed on the first attempt after the crash: %v (a second attempt %s); %s", err, second, ctx)
		return
	}
	out.Checks++
	f, rec := checkSnapshotFile(st, allowed, disk.Snaps, inflightSnap, ndirs, cls, ctx)
	out.Recovered = rec
	if f != nil {
		out.Fail = f
		return
	}
	// continuation: a new snapshot can be taken and is the one returned, also
	// by a freshly constructed storage
	cont := &sim.Snap{Meta: raft.SnapshotMetadata{LastIncludedIndex: 9999, LastIncludedTerm: 9, Configuration: []byte("cont")}, Data: payload(9999, 0, 10)}
	nf, err := st.NewSnapshotFile(9999, 9, []byte("cont"))
	if err == nil {
		_, err = nf.Write(cont.Data)
	}
	if err == nil {
		err = nf.Close()
	}
	if err != nil {
		out.Fail = failf("continuation-fails:new-snapshot:"+cls, "taking a snapshot on the recovered storage: %v; %s", err, ctx)
		return
	}
	for round := 1; round <= 2; round++ {
		out.Checks++
		if f, _ := checkSnapshotFile(st, []*sim.Snap{cont}, disk.Snaps, nil, countSnapDirs(dir), "after-continuation", ctx); f != nil {
			out.Fail = f
			return
		}
		st, err = raft.NewSnapshotStorage(dir)
		if err != nil {
			out.Fail = failf("constructor-error:after-continuation", "NewSnapshotStorage after the continuation: %v; %s", err, ctx)
			return
		}
	}
	return
}
