package crashfs

import (
	"fmt"
	"path/filepath"
	"strings"

	"github.com/jmsadair/raft"

	"verif/mc/sim"
)

// StateVal is one SetState call.
type StateVal struct {
	Term uint64 `json:"term"`
	Vote string `json:"vote"`
}

func (v StateVal) String() string { return fmt.Sprintf("(%d,%q)", v.Term, v.Vote) }

// StateCase is a sequence of SetState calls and a crash point.
type StateCase struct {
	Ops   []StateVal `json:"ops"`
	Crash *Point     `json:"crash,omitempty"`
}

func (c *StateCase) String() string {
	var s []string
	for _, o := range c.Ops {
		s = append(s, "SetState"+o.String())
	}
	r := "NewStateStorage; " + strings.Join(s, "; ")
	if c.Crash != nil {
		r += " !crash@" + c.Crash.String()
	}
	return r
}

var StateTerms = []uint64{0, 1, 7, 1 << 63}
var StateVotes = []string{"", "a", "node-ñ"}

const StateRule = "every sequence of 0..4 SetState(t,v) calls with t in {0,1,7,2^63} and v in {\"\",\"a\",\"node-ñ\"} (12 values per position, 1+12+144+1728+20736 programs); crash points of the last call of each (crashes inside earlier calls are the same runs as crashes inside the last call of the prefix program)"

// EnumStatePrograms visits every sequence of at most maxLen SetState calls,
// shortest first.
func EnumStatePrograms(maxLen int, visit func(idx int, prog []StateVal) bool) int {
	var vals []StateVal
	for _, t := range StateTerms {
		for _, v := range StateVotes {
			vals = append(vals, StateVal{t, v})
		}
	}
	idx := 0
	stop := false
	var dfs func(L int, prog []StateVal)
	dfs = func(L int, prog []StateVal) {
		if stop {
			return
		}
		if len(prog) == L {
			if !visit(idx, prog) {
				stop = true
			}
			idx++
			return
		}
		for _, v := range vals {
			dfs(L, append(prog[:len(prog):len(prog)], v))
		}
	}
	for L := 0; L <= maxLen && !stop; L++ {
		dfs(L, nil)
	}
	return idx
}

type stateOutcome struct {
	Fail      *Failure
	Infra     string
	Trace     []CallRec
	Bounds    []int
	PreImg    uint64
	PostImg   uint64
	CrashImg  *Image
	Checks    int
	Denied    int
	Inflight  string
	HitCall   string
	Recovered string
}

func stateImageClass(im *Image) string {
	tmp, st := false, false
	for _, e := range im.Entries {
		b := filepath.Base(e.Path)
		if strings.HasPrefix(b, "tmp") {
			tmp = true
		}
		if b == "state.bin" {
			st = true
		}
	}
	switch {
	case tmp && st:
		return "tmp-state-file-left"
	case tmp:
		return "tmp-state-file-left-no-state-file"
	case st:
		return "clean"
	}
	return "no-state-file"
}

// RunStateCase executes a state-storage case on a fresh directory.
func RunStateCase(c *StateCase, record bool) (out *stateOutcome) {
	out = &stateOutcome{}
	dir := FreshDir()
	ResetTemp()
	defer Uninstall()
	disk := &sim.StateDisk{}
	model := &sim.MemState{Disk: disk}
	allowed := []StateVal{{0, ""}}
	inj := NewInjector(dir, c.Crash)
	bounds := []int{0}
	inflight := "NewStateStorage"
	if record && len(c.Ops) == 0 {
		out.PreImg = TakeImage(dir).Hash
	}
	inj.Install()
	func() {
		defer func() {
			if r := recover(); r != nil && !inj.Dead {
				out.Fail = failf("panic:state", "panic in a live incarnation during %s: %v (case %s)", inflight, r, c)
			}
		}()
		st, err := raft.NewStateStorage(dir)
		if inj.Dead {
			return
		}
		if err != nil {
			out.Fail = failf("model-disagreement:state-constructor", "NewStateStorage on an empty directory: %v", err)
			return
		}
		bounds = append(bounds, len(inj.Trace))
		for oi, v := range c.Ops {
			if record && oi == len(c.Ops)-1 {
				out.PreImg = TakeImage(dir).Hash
			}
			inflight = fmt.Sprintf("op %d SetState%s", oi+1, v)
			prev := StateVal{disk.Term, disk.Vote}
			_ = model.SetState(v.Term, v.Vote)
			err := st.SetState(v.Term, v.Vote)
			if inj.Dead {
				allowed = []StateVal{prev, v}
				return
			}
			out.Checks++
			if err != nil {
				out.Fail = failf("model-disagreement:setstate-error", "SetState%s returned %v; case: %s", v, err, c)
				return
			}
			bounds = append(bounds, len(inj.Trace))
			// read back: same handle (not intercepted as part of the program)
			ncalls := len(inj.Trace)
			t, vt, err := st.State()
			if len(inj.Trace) != ncalls {
				out.Infra = "State() on the writing handle touched the file system; the program trace would not be the SetState calls alone"
				return
			}
			out.Checks++
			if err != nil || t != v.Term || vt != v.Vote {
				out.Fail = failf("model-disagreement:state-readback", "State() after SetState%s returned (%d,%q,%v); case: %s", v, t, vt, err, c)
				return
			}
		}
		if c.Crash == nil {
			return
		}
		if c.Crash.K != len(inj.Trace) {
			out.Infra = fmt.Sprintf("crash point %v not reached: %d calls (case %s)", *c.Crash, len(inj.Trace), c)
			return
		}
		inj.Kill()
		inflight = "none (after the last call)"
		allowed = []StateVal{{disk.Term, disk.Vote}}
	}()
	Uninstall()
	out.Denied = inj.DeniedAfter
	out.Trace, out.Bounds, out.Inflight = inj.Trace, bounds, inflight
	if inj.Hit != nil {
		out.HitCall = inj.Hit.String()
	}
	if out.Fail != nil || out.Infra != "" {
		return
	}
	if c.Crash == nil {
		out.PostImg = TakeImage(dir).Hash
		// a fresh handle reads the last value back
		if f := checkStateReads(dir, []StateVal{{disk.Term, disk.Vote}}, "clean", c.String(), out); f != nil {
			out.Fail = f
		}
		return
	}
	if !inj.Dead {
		out.Infra = "run ended without reaching its crash point: " + c.String()
		return
	}
	out.CrashImg = TakeImage(dir)
	cls := stateImageClass(out.CrashImg)
	ctx := fmt.Sprintf("crashed during %s at %s; image: %s; case: %s", inflight, out.HitCall, out.CrashImg, c)
	if f := checkStateReads(dir, allowed, cls, ctx, out); f != nil {
		out.Fail = f
		return
	}
	// continuation: the recovered storage keeps working
	st, err := raft.NewStateStorage(dir)
	if err != nil {
		out.Fail = failf("constructor-error:state:second-construction:"+cls, "second NewStateStorage: %v; %s", err, ctx)
		return
	}
	cont := StateVal{99, "cont"}
	if err := st.SetState(cont.Term, cont.Vote); err != nil {
		out.Fail = failf("continuation-fails:setstate:"+cls, "SetState after recovery: %v; %s", err, ctx)
		return
	}
	Uninstall() // closes the leaked temporary-file descriptor
	return checkStateReadsOut(dir, []StateVal{cont}, "after-continuation:"+cls, ctx, out)
}

func checkStateReadsOut(dir string, allowed []StateVal, cls, ctx string, out *stateOutcome) *stateOutcome {
	if f := checkStateReads(dir, allowed, cls, ctx, out); f != nil {
		out.Fail = f
	}
	return out
}

// checkStateReads: NewStateStorage succeeds on the first attempt and State()
// returns, without error, one of the allowed values.
func checkStateReads(dir string, allowed []StateVal, cls, ctx string, out *stateOutcome) *Failure {
	st, err := raft.NewStateStorage(dir)
	if err != nil {
		return failf("constructor-error:state:"+cls, "NewStateStorage failed on the first attempt: %v; %s", err, ctx)
	}
	t, v, err := st.State()
	out.Checks++
	if err != nil {
		return failf("state-error:"+errClass(err)+":"+cls, "State() returned an error: %v; allowed values %v; %s", err, allowed, ctx)
	}
	got := StateVal{t, v}
	out.Recovered = got.String()
	for _, a := range allowed {
		if a == got {
			return nil
		}
	}
	return failf("state-wrong-value:"+cls, "State() returned %s, allowed are %v; %s", got, allowed, ctx)
}
