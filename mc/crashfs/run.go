package crashfs

import (
	"bytes"
	"encoding/json"
	"fmt"
	"os"
	"os/exec"
	"runtime"
	"runtime/pprof"
	"sort"
	"strconv"
	"strings"
	"sync"
	"syscall"
	"time"

	"github.com/jmsadair/raft/verifshim/vos"

	"verif/mc/common"
)

const NShards = 16

// SigInfo is what is kept per failure signature: how often, and the simplest
// case that showed it.
type SigInfo struct {
	Count  int             `json:"count"`
	Suite  string          `json:"suite"`
	Level  int             `json:"level"` // 1 = single crash, 2 = nested crash
	Len    int             `json:"len"`   // program length
	Unit   int             `json:"unit"`  // program number in enumeration order
	Seq    int             `json:"seq"`   // crash point number within the program
	Params json.RawMessage `json:"params"`
	Detail string          `json:"detail"`
}

func (a *SigInfo) simpler(b *SigInfo) bool {
	if a.Level != b.Level {
		return a.Level < b.Level
	}
	if a.Len != b.Len {
		return a.Len < b.Len
	}
	if a.Unit != b.Unit {
		return a.Unit < b.Unit
	}
	return a.Seq < b.Seq
}

// Sample is a written-out case for the evidence file.
type Sample struct {
	Suite     string `json:"suite"`
	Case      string `json:"case"`
	Inflight  string `json:"in_flight_operation"`
	Crash     string `json:"crash_point"`
	Image     string `json:"image_at_recovery"`
	Recovered string `json:"recovered"`
	Verdict   string `json:"verdict"`
	Rank      int    `json:"rank,omitempty"` // worker -> parent only
}

// Stats is what a worker reports.
type Stats struct {
	Shard            int                 `json:"shard"`
	UnitsTotal       map[string]int      `json:"units_total"` // programs enumerated (all shards)
	Units            map[string]int      `json:"units"`       // programs this shard ran
	Evaluations      int                 `json:"evaluations"`
	CrashPoints      int                 `json:"crash_points"`
	NestedPoints     int                 `json:"nested_crash_points"`
	NestedBases      int                 `json:"nested_bases"`
	BytePrefixPoints int                 `json:"byte_prefix_points"`
	Nontrivial       int                 `json:"distinct_nontrivial"`
	CallsTotal       int                 `json:"calls_total"`
	CallsMutating    int                 `json:"calls_mutating"`
	ModelChecks      int                 `json:"model_agreement_checks"`
	CleanRuns        int                 `json:"clean_runs"`
	DeniedAfter      int                 `json:"calls_denied_to_dead_incarnations"`
	ByInflight       map[string]int      `json:"crash_points_by_in_flight_op"`
	Sigs             map[string]*SigInfo `json:"signatures"`
	Samples          []Sample            `json:"samples"`
	Deadline         bool                `json:"deadline_hit"`
	Infra            string              `json:"infra,omitempty"`
	MaxFD            int                 `json:"max_open_fds"`
}

func newStats() *Stats {
	return &Stats{UnitsTotal: map[string]int{}, Units: map[string]int{}, ByInflight: map[string]int{}, Sigs: map[string]*SigInfo{}}
}

func (s *Stats) merge(o *Stats) {
	for k, v := range o.UnitsTotal {
		if v > s.UnitsTotal[k] {
			s.UnitsTotal[k] = v
		}
	}
	for k, v := range o.Units {
		s.Units[k] += v
	}
	s.Evaluations += o.Evaluations
	s.CrashPoints += o.CrashPoints
	s.NestedPoints += o.NestedPoints
	s.NestedBases += o.NestedBases
	s.BytePrefixPoints += o.BytePrefixPoints
	s.Nontrivial += o.Nontrivial
	s.CallsTotal += o.CallsTotal
	s.CallsMutating += o.CallsMutating
	s.ModelChecks += o.ModelChecks
	s.CleanRuns += o.CleanRuns
	s.DeniedAfter += o.DeniedAfter
	for k, v := range o.ByInflight {
		s.ByInflight[k] += v
	}
	for k, v := range o.Sigs {
		if cur := s.Sigs[k]; cur == nil {
			c := *v
			s.Sigs[k] = &c
		} else {
			n := cur.Count + v.Count
			if v.simpler(cur) {
				c := *v
				s.Sigs[k] = &c
			}
			s.Sigs[k].Count = n
		}
	}
	s.Samples = append(s.Samples, o.Samples...)
	s.Deadline = s.Deadline || o.Deadline
	if s.Infra == "" {
		s.Infra = o.Infra
	}
	if o.MaxFD > s.MaxFD {
		s.MaxFD = o.MaxFD
	}
}

// ---------------------------------------------------------------------------
// worker

type worker struct {
	prop, tier     string
	shard, nshards int
	deadline       time.Time
	st             *Stats
	nestSeen       map[uint64]bool
	sampleKinds    map[string]int
	evalsSinceFD   int
}

func (w *worker) expired() bool {
	if time.Now().After(w.deadline) {
		w.st.Deadline = true
		return true
	}
	return false
}

func (w *worker) fail(suite string, level, plen, unit, seq int, params any, f *Failure) {
	cand := &SigInfo{Count: 1, Suite: suite, Level: level, Len: plen, Unit: unit, Seq: seq, Detail: f.Detail}
	si := w.st.Sigs[f.Sig]
	if si == nil || cand.simpler(si) {
		if si != nil {
			cand.Count = si.Count + 1
		}
		cand.Params, _ = json.Marshal(params)
		w.st.Sigs[f.Sig] = cand
		return
	}
	si.Count++
}

func (w *worker) sample(kind string, s Sample) {
	if w.sampleKinds[kind] >= 1 {
		return
	}
	w.sampleKinds[kind]++
	switch {
	case strings.Contains(kind, "nested"):
		s.Rank = 5
	case s.Verdict != "held":
		s.Rank = 4
	case strings.Contains(kind, "nontrivial") && inflightKind(s.Inflight) != "Append":
		s.Rank = 1
	case strings.Contains(kind, "nontrivial"):
		s.Rank = 2
	default:
		s.Rank = 3
	}
	w.st.Samples = append(w.st.Samples, s)
}

func (w *worker) fdCheck() {
	w.evalsSinceFD++
	if w.evalsSinceFD < 2000 {
		return
	}
	w.evalsSinceFD = 0
	if ents, err := os.ReadDir("/proc/self/fd"); err == nil && len(ents) > w.st.MaxFD {
		w.st.MaxFD = len(ents)
	}
}

type tierCfg struct {
	logMax, logFull, nestLen int
	stateMax                 int
	snapMax                  int
}

func cfgOf(tier string) tierCfg {
	if tier == "thorough" {
		return tierCfg{logMax: 4, logFull: 3, nestLen: 2, stateMax: 4, snapMax: 4}
	}
	return tierCfg{logMax: 3, logFull: 3, nestLen: 1, stateMax: 4, snapMax: 4}
}

// LogRule describes what the C12 enumeration covers in a tier.
func LogRule(tier string) string {
	c := cfgOf(tier)
	s := fmt.Sprintf("programs: every sequence of 0..%d operations over the full alphabet F", c.logFull)
	if c.logMax > c.logFull {
		s += fmt.Sprintf(", and every sequence of %d operations whose first %d come from the reduced alphabet R and whose last comes from F", c.logMax, c.logMax-1)
	}
	s += "; " + LogAlphabetRule + ". Each program is run once without crash, call by call against the reference model (sim.MemLog), then once per crash point of its LAST operation (program 0 = creating the log): before every mutating file-system call, after every byte prefix of every write (" + PrefixRule + "), and after the last call. Crashes inside an earlier operation are not repeated: they are the same executions as crashes inside the last operation of the corresponding prefix program, which is enumerated. After the crash: NewLog+Open+Replay first attempt, recovered entries compared with the allowed reference states, then AppendEntry, Close, reopen, read everything, reopen again."
	if c.nestLen >= 0 {
		s += fmt.Sprintf(" Nested level: for every crash of a program of length <= %d over the reduced alphabet R whose image at recovery differs from both clean images (one representative per distinct image and worker) and whose recovery is accepted, the bare recovery and every single operation of F at the recovered state are run with every crash point again, followed by the same recovery checks.", c.nestLen)
	}
	return s
}

func (w *worker) mine(idx int) bool { return idx%w.nshards == w.shard }

func (w *worker) runLog() {
	c := cfgOf(w.tier)
	total := EnumLogPrograms(c.logMax, c.logFull, func(idx int, prog []LogOp) bool {
		if !w.mine(idx) {
			return true
		}
		if w.expired() {
			return false
		}
		p := append([]LogOp(nil), prog...)
		base := &LogCase{Stages: []LogStage{{Ops: p}}}
		nest := len(p) <= c.nestLen
		for _, op := range p {
			nest = nest && op.inR
		}
		w.logUnit(base, 1, len(p), idx, nest)
		w.st.Units["log"]++
		return !w.st.Deadline && w.st.Infra == ""
	})
	w.st.UnitsTotal["log"] = total
}

func inflightKind(s string) string {
	if strings.Contains(s, "NewSnapshotFile") {
		if strings.Contains(s, "+Discard") {
			return "snapshot+Discard"
		}
		return "snapshot+Close"
	}
	for _, k := range []string{"Append", "Truncate", "Compact", "Discard", "Close+Reopen", "Open", "none", "SetState", "NewStateStorage", "NewSnapshotStorage", "SnapshotFile+ReadAll"} {
		if bytes.Contains([]byte(s), []byte(k)) {
			return k
		}
	}
	if bytes.Contains([]byte(s), []byte("+Discard")) {
		return "snapshot+Discard"
	}
	if bytes.Contains([]byte(s), []byte("NewSnapshotFile")) {
		return "snapshot+Close"
	}
	return s
}

func (w *worker) logUnit(c *LogCase, level, plen, unit int, nest bool) {
	rec := RunLogCase(c, true)
	w.st.CleanRuns++
	w.st.ModelChecks += rec.Checks
	if rec.Infra != "" {
		w.st.Infra = rec.Infra
		return
	}
	if rec.Fail != nil {
		w.fail("log", level, plen, unit, -1, c, rec.Fail)
		return
	}
	nb := len(rec.Bounds)
	lo, hi := rec.Bounds[nb-2], rec.Bounds[nb-1]
	w.st.CallsTotal += hi - lo
	w.st.CallsMutating += Mutating(rec.Trace, lo, hi)
	for seq, pt := range Points(rec.Trace, lo, hi) {
		if w.expired() {
			return
		}
		cc := c.withCrash(pt)
		out := RunLogCase(cc, false)
		w.fdCheck()
		w.st.Evaluations++
		if level == 1 {
			w.st.CrashPoints++
		} else {
			w.st.NestedPoints++
		}
		if pt.J > 0 {
			w.st.BytePrefixPoints++
		}
		w.st.ModelChecks += out.Checks
		w.st.DeniedAfter += out.Denied
		if out.Infra != "" {
			w.st.Infra = out.Infra
			return
		}
		if out.CrashImg == nil {
			// an earlier stage of a nested case failed; already reported at level 1
			if out.Fail != nil {
				w.fail("log", level, plen, unit, seq, cc, out.Fail)
			}
			continue
		}
		if err := SameTrace(rec.Trace, out.Trace, pt.K); err != nil {
			w.st.Infra = fmt.Sprintf("non-deterministic trace: %v (case %s)", err, cc)
			return
		}
		w.st.ByInflight[inflightKind(out.Inflight)]++
		nontrivial := out.CrashImg.Img.Hash != rec.PreImg && out.CrashImg.Img.Hash != rec.PostImg
		if nontrivial {
			w.st.Nontrivial++
		}
		verdict := "held"
		if out.Fail != nil {
			verdict = "VIOLATION " + out.Fail.Sig
			w.fail("log", level, plen, unit, seq, cc, out.Fail)
		}
		kind := "trivial-" + verdict
		if nontrivial {
			kind = "nontrivial-" + verdict
		}
		if level == 2 {
			kind = "nested-" + kind
		}
		kind += "-" + inflightKind(out.Inflight)
		if len(c.Stages[len(c.Stages)-1].Ops) >= 1 || level == 2 {
			w.sample(kind, Sample{Suite: "log", Case: cc.String(), Inflight: out.Inflight, Crash: out.HitCall + " / " + pt.String(), Image: out.CrashImg.String(), Recovered: out.Recovered, Verdict: verdict})
		}
		if nest && level == 1 && nontrivial && out.Matched != nil && !w.nestSeen[out.CrashImg.Img.Hash] {
			w.nestSeen[out.CrashImg.Img.Hash] = true
			w.st.NestedBases++
			w.logUnit(&LogCase{Stages: []LogStage{{Ops: c.Stages[0].Ops, Crash: &Point{pt.K, pt.J}}, {}}}, 2, plen, unit, false)
			for _, op := range logAlphabet(out.Matched, true) {
				if w.expired() || w.st.Infra != "" {
					return
				}
				w.logUnit(&LogCase{Stages: []LogStage{{Ops: c.Stages[0].Ops, Crash: &Point{pt.K, pt.J}}, {Ops: []LogOp{op}}}}, 2, plen, unit, false)
			}
		}
	}
}

func (w *worker) runState() {
	c := cfgOf(w.tier)
	total := EnumStatePrograms(c.stateMax, func(idx int, prog []StateVal) bool {
		if !w.mine(idx) {
			return true
		}
		if w.expired() {
			return false
		}
		base := &StateCase{Ops: append([]StateVal(nil), prog...)}
		rec := RunStateCase(base, true)
		w.st.CleanRuns++
		w.st.ModelChecks += rec.Checks
		w.st.Units["state"]++
		if rec.Infra != "" {
			w.st.Infra = rec.Infra
			return false
		}
		if rec.Fail != nil {
			w.fail("state", 1, len(prog), idx, -1, base, rec.Fail)
			return true
		}
		nb := len(rec.Bounds)
		lo, hi := rec.Bounds[nb-2], rec.Bounds[nb-1]
		w.st.CallsTotal += hi - lo
		w.st.CallsMutating += Mutating(rec.Trace, lo, hi)
		for seq, pt := range Points(rec.Trace, lo, hi) {
			p := pt
			cc := &StateCase{Ops: base.Ops, Crash: &p}
			out := RunStateCase(cc, false)
			w.fdCheck()
			w.st.Evaluations++
			w.st.CrashPoints++
			if pt.J > 0 {
				w.st.BytePrefixPoints++
			}
			w.st.ModelChecks += out.Checks
			w.st.DeniedAfter += out.Denied
			if out.Infra != "" {
				w.st.Infra = out.Infra
				return false
			}
			if err := SameTrace(rec.Trace, out.Trace, pt.K); err != nil {
				w.st.Infra = fmt.Sprintf("non-deterministic trace: %v (case %s)", err, cc)
				return false
			}
			w.st.ByInflight[inflightKind(out.Inflight)]++
			nontrivial := out.CrashImg.Hash != rec.PreImg && out.CrashImg.Hash != rec.PostImg
			if nontrivial {
				w.st.Nontrivial++
			}
			verdict := "held"
			if out.Fail != nil {
				verdict = "VIOLATION " + out.Fail.Sig
				w.fail("state", 1, len(prog), idx, seq, cc, out.Fail)
			}
			kind := "state-trivial-" + verdict
			if nontrivial {
				kind = "state-nontrivial-" + verdict
			}
			if len(prog) >= 2 {
				w.sample(kind, Sample{Suite: "state", Case: cc.String(), Inflight: out.Inflight, Crash: out.HitCall + " / " + pt.String(), Image: out.CrashImg.String(), Recovered: out.Recovered, Verdict: verdict})
			}
		}
		return true
	})
	w.st.UnitsTotal["state"] = total
}

func (w *worker) runSnap() {
	c := cfgOf(w.tier)
	total := EnumSnapPrograms(c.snapMax, w.tier == "thorough", func(idx, pre int, prog []SnapOp) bool {
		if !w.mine(idx) {
			return true
		}
		if w.expired() {
			return false
		}
		base := &SnapCase{Pre: pre, Ops: append([]SnapOp(nil), prog...)}
		rec := RunSnapCase(base, true)
		w.st.CleanRuns++
		w.st.ModelChecks += rec.Checks
		w.st.Units["snapshot"]++
		if rec.Infra != "" {
			w.st.Infra = rec.Infra
			return false
		}
		if rec.Fail != nil {
			w.fail("snapshot", 1, len(prog), idx, -1, base, rec.Fail)
			return true
		}
		nb := len(rec.Bounds)
		lo, hi := rec.Bounds[nb-2], rec.Bounds[nb-1]
		w.st.CallsTotal += hi - lo
		w.st.CallsMutating += Mutating(rec.Trace, lo, hi)
		for seq, pt := range Points(rec.Trace, lo, hi) {
			if w.expired() {
				return false
			}
			p := pt
			cc := &SnapCase{Pre: pre, Ops: base.Ops, Crash: &p}
			out := RunSnapCase(cc, false)
			w.fdCheck()
			w.st.Evaluations++
			w.st.CrashPoints++
			if pt.J > 0 {
				w.st.BytePrefixPoints++
			}
			w.st.ModelChecks += out.Checks
			w.st.DeniedAfter += out.Denied
			if out.Infra != "" {
				w.st.Infra = out.Infra
				return false
			}
			if err := SameTrace(rec.Trace, out.Trace, pt.K); err != nil {
				w.st.Infra = fmt.Sprintf("non-deterministic trace: %v (case %s)", err, cc)
				return false
			}
			w.st.ByInflight[inflightKind(out.Inflight)]++
			nontrivial := out.CrashImg.Hash != rec.PreImg && out.CrashImg.Hash != rec.PostImg
			if nontrivial {
				w.st.Nontrivial++
			}
			verdict := "held"
			if out.Fail != nil {
				verdict = "VIOLATION " + out.Fail.Sig
				w.fail("snapshot", 1, len(prog), idx, seq, cc, out.Fail)
			}
			kind := "snap-trivial-" + verdict
			if nontrivial {
				kind = "snap-nontrivial-" + verdict
			}
			kind += "-" + inflightKind(out.Inflight)
			img := out.CrashImg.String()
			if len(img) > 400 {
				img = img[:400] + "..."
			}
			w.sample(kind, Sample{Suite: "snapshot", Case: cc.String(), Inflight: out.Inflight, Crash: out.HitCall + " / " + pt.String(), Image: img, Recovered: out.Recovered, Verdict: verdict})
		}
		return true
	})
	w.st.UnitsTotal["snapshot"] = total
	if err := VerifyTemplates(); err != nil && w.st.Infra == "" {
		w.st.Infra = err.Error()
	}
}

// WorkerMain: check crashworker <prop> <tier> <shard> <nshards> <deadline-unix>
func WorkerMain(args []string) int {
	if len(args) < 5 {
		fmt.Fprintln(os.Stderr, "usage: check crashworker <prop> <tier> <shard> <nshards> <deadline-unix>")
		return 2
	}
	shard, _ := strconv.Atoi(args[2])
	n, _ := strconv.Atoi(args[3])
	dl, _ := strconv.ParseInt(args[4], 10, 64)
	w := &worker{prop: args[0], tier: args[1], shard: shard, nshards: n, deadline: time.Unix(dl, 0), st: newStats(), nestSeen: map[uint64]bool{}, sampleKinds: map[string]int{}}
	w.st.Shard = shard
	vos.Track = true
	Scratch()
	defer Cleanup()
	if pf := os.Getenv("VERIF_CRASH_CPUPROF"); pf != "" { // development aid
		if f, err := os.Create(pf); err == nil {
			_ = pprof.StartCPUProfile(f)
			defer pprof.StopCPUProfile()
		}
	}
	switch w.prop {
	case "C12":
		w.runLog()
	case "C13":
		only := os.Getenv("VERIF_CRASH_ONLY") // development aid: state | snapshot
		if only == "" || only == "state" {
			w.runState()
		}
		if w.st.Infra == "" && (only == "" || only == "snapshot") {
			w.runSnap()
		}
	default:
		w.st.Infra = "crash engine has no programs for " + w.prop
	}
	Uninstall()
	vos.Reset()
	enc := json.NewEncoder(os.Stdout)
	if err := enc.Encode(w.st); err != nil {
		return 2
	}
	return 0
}

// ---------------------------------------------------------------------------
// parent

func deadlineOf(tier string) time.Duration {
	if s := os.Getenv("VERIF_CRASH_DEADLINE_S"); s != "" {
		if n, err := strconv.Atoi(s); err == nil {
			return time.Duration(n) * time.Second
		}
	}
	if tier == "thorough" {
		return 15 * time.Minute
	}
	return 100 * time.Second
}

// RunCheck runs the property's enumeration in NShards worker subprocesses (the
// interceptor is a process global), merges their reports, confirms one case
// per signature, writes the evidence and prints the interface lines.
// Extra, if set, contributes a part of the check that lives outside this
// package; it adds violations to rep and returns its coverage.
var Extra func(prop, tier string, rep *common.Report) (cov map[string]any, exhaustive bool, assumption string, code int)

func RunCheck(prop, tier string) int {
	t0 := time.Now()
	rep := common.NewReport(prop)
	exe, err := os.Executable()
	if err != nil {
		fmt.Println("INFRA: cannot find own executable:", err)
		return 2
	}
	deadline := t0.Add(deadlineOf(tier))
	results := make([]*Stats, NShards)
	errs := make([]error, NShards)
	pids := make([]int, NShards)
	var wg sync.WaitGroup
	SweepStale()
	Scratch()
	var pmu sync.Mutex
	procs := map[int]*os.Process{}
	onSignal = append(onSignal, func() {
		pmu.Lock()
		defer pmu.Unlock()
		for pid, p := range procs {
			_ = p.Kill()
			_ = os.RemoveAll(ScratchOf(pid))
		}
	})
	off := common.Seed()
	for i := 0; i < NShards; i++ {
		wg.Add(1)
		go func(i int) {
			defer wg.Done()
			// the worker is told to terminate if this process dies; the
			// signal is bound to the starting thread, so keep it
			runtime.LockOSThread()
			defer runtime.UnlockOSThread()
			shard := (i + off) % NShards
			if shard < 0 {
				shard += NShards
			}
			cmd := exec.Command(exe, "crashworker", prop, tier, strconv.Itoa(shard), strconv.Itoa(NShards), strconv.FormatInt(deadline.Unix(), 10))
			var stdout bytes.Buffer
			cmd.Stdout = &stdout
			cmd.Stderr = os.Stderr
			cmd.SysProcAttr = &syscall.SysProcAttr{Pdeathsig: syscall.SIGTERM}
			if err := cmd.Start(); err != nil {
				errs[i] = err
				return
			}
			pids[i] = cmd.Process.Pid
			pmu.Lock()
			procs[pids[i]] = cmd.Process
			pmu.Unlock()
			err := cmd.Wait()
			pmu.Lock()
			delete(procs, pids[i])
			pmu.Unlock()
			_ = os.RemoveAll(ScratchOf(pids[i]))
			if err != nil {
				errs[i] = fmt.Errorf("worker %d: %v; output: %.300s", shard, err, stdout.String())
				return
			}
			st := newStats()
			if err := json.Unmarshal(stdout.Bytes(), st); err != nil {
				errs[i] = fmt.Errorf("worker %d: unreadable report: %v; output: %.300s", shard, err, stdout.String())
				return
			}
			results[i] = st
		}(i)
	}
	wg.Wait()
	defer Cleanup()
	total := newStats()
	for i := range results {
		if errs[i] != nil {
			fmt.Println("INFRA:", errs[i])
			return 2
		}
		total.merge(results[i])
	}
	if total.Infra != "" {
		fmt.Println("INFRA:", total.Infra)
		return 2
	}

	// one report per distinct signature, simplest program first; each case is
	// re-executed 3 times in this process and must fail identically
	var sigs []string
	for s := range total.Sigs {
		sigs = append(sigs, s)
	}
	sort.Slice(sigs, func(i, j int) bool {
		a, b := total.Sigs[sigs[i]], total.Sigs[sigs[j]]
		if a.simpler(b) {
			return true
		}
		if b.simpler(a) {
			return false
		}
		return sigs[i] < sigs[j]
	})
	vos.Track = true
	perSig := map[string]any{}
	for _, s := range sigs {
		si := total.Sigs[s]
		for n := 0; n < 3; n++ {
			f, _, err := ExecParams(si.Suite, si.Params)
			if err != nil || f == nil || f.Sig != s {
				got := "no violation"
				if f != nil {
					got = f.Sig
				}
				fmt.Printf("INFRA: violation %q did not reproduce identically on re-execution %d (got %s, err %v)\n", s, n+1, got, err)
				return 2
			}
		}
		perSig[s] = map[string]any{"count": si.Count, "suite": si.Suite, "first_case_level": si.Level}
		rep.Add(&common.Violation{Property: prop, Signature: s, Detail: si.Detail}, &common.Replay{Engine: "crash", Suite: si.Suite, Params: si.Params})
	}
	Uninstall()
	vos.Reset()

	exhaustive := !total.Deadline
	units, unitsTotal := 0, 0
	for _, v := range total.Units {
		units += v
	}
	for _, v := range total.UnitsTotal {
		unitsTotal += v
	}
	if units != unitsTotal {
		exhaustive = false
	}
	cov := map[string]any{
		"evaluations":                       total.Evaluations,
		"distinct_nontrivial":               total.Nontrivial,
		"distinct_nontrivial_rule":          "number of distinct (program, crash point) cases whose directory image at recovery (names, kinds and contents of every file, FNV-64) differs from BOTH the image before the interrupted operation started and the image after it completed in the crash-free run of the same program (snapshot directories are compared by rank, not by their wall-clock names; the pre-existing snapshots of C13, hard links to a template that is verified unmodified at the end of every worker, by rank only)",
		"programs":                          units,
		"programs_enumerated":               unitsTotal,
		"programs_by_suite":                 total.Units,
		"crash_points":                      total.CrashPoints,
		"nested_crash_points":               total.NestedPoints,
		"nested_base_images":                total.NestedBases,
		"byte_prefix_points":                total.BytePrefixPoints,
		"crash_free_runs":                   total.CleanRuns,
		"model_agreement_checks":            total.ModelChecks,
		"calls_in_enumerated_operations":    total.CallsTotal,
		"mutating_calls_in_enumerated_ops":  total.CallsMutating,
		"calls_denied_to_dead_incarnations": total.DeniedAfter,
		"crash_points_by_in_flight_op":      total.ByInflight,
		"exhaustive":                        exhaustive,
		"deadline_hit":                      total.Deadline,
		"signatures":                        perSig,
		"samples":                           pickSamples(total.Samples),
		"shards":                            NShards,
		"max_open_fds_in_a_worker":          total.MaxFD,
		"known_findings_matched":            len(rep.KnownSeen),
		"fault_model":                       "process crash: completed calls are durable, an in-flight write leaves any byte prefix, nothing is reordered, every call after the crash point is denied",
		"byte_prefix_rule":                  PrefixRule,
	}
	switch prop {
	case "C12":
		cov["rule"] = LogRule(tier)
	case "C13":
		cov["rule"] = "term/vote storage: " + StateRule + ". Snapshot storage: " + SnapRule(tier == "thorough") + "; crash points of the last operation of each program: before every mutating call, after every byte prefix of every write (" + PrefixRule + "), after the last call. Recovery: NewStateStorage / NewSnapshotStorage first attempt, State() / SnapshotFile()+read all, then a continuation (one more SetState / one more snapshot) read back through a fresh storage."
	}
	assumptions := []string{"process-crash fault model (no power loss: unsynced data is not dropped, directory entries are durable once the call returned)", "single-threaded use of each storage in the enumerated programs"}
	if Extra != nil {
		// a part of the check that runs outside this package (cluster suites on the real storages)
		ecov, eex, note, code := Extra(prop, tier, rep)
		if code != 0 {
			return code
		}
		if ecov != nil {
			cov["cluster_part"] = ecov
			cov["exhaustive"] = exhaustive && eex
			assumptions = append(assumptions, note)
		}
	}
	ev := &common.Evidence{PropertyID: prop, Tier: tier, Seed: common.Seed(), Level: "fault_enumeration", Coverage: cov,
		Assumptions: assumptions,
		WallS:       time.Since(t0).Seconds(), Violations: len(rep.Violations)}
	if total.Evaluations == 0 || total.Nontrivial < 2 {
		fmt.Printf("INFRA: vacuous crash enumeration: evaluations=%d distinct_nontrivial=%d\n", total.Evaluations, total.Nontrivial)
		return 2
	}
	if err := ev.Write(); err != nil {
		fmt.Println("INFRA: evidence:", err)
		return 2
	}
	fmt.Printf("%s %s: programs=%d/%d crash_runs=%d (level-1 %d, nested %d, byte-prefix %d) distinct_nontrivial=%d model_checks=%d exhaustive=%t signatures=%d wall=%.1fs\n",
		prop, tier, units, unitsTotal, total.Evaluations, total.CrashPoints, total.NestedPoints, total.BytePrefixPoints, total.Nontrivial, total.ModelChecks, exhaustive, len(sigs), time.Since(t0).Seconds())
	for _, s := range sigs {
		fmt.Printf("  signature %-60s cases=%d\n", s, total.Sigs[s].Count)
	}
	return rep.Finish()
}

// pickSamples keeps at most five written-out cases: held ones with different
// in-flight operations first (non-trivial images preferred), then one per
// violated signature.
func pickSamples(all []Sample) []Sample {
	sort.SliceStable(all, func(i, j int) bool { return all[i].Rank < all[j].Rank })
	seen := map[string]bool{}
	var out []Sample
	held := 0
	for _, s := range all {
		key := s.Verdict
		if s.Verdict == "held" {
			key = "held/" + s.Suite + "/" + inflightKind(s.Inflight)
			if held >= 3 {
				continue
			}
		}
		if seen[key] || len(out) >= 5 {
			continue
		}
		seen[key] = true
		if s.Verdict == "held" {
			held++
		}
		s.Rank = 0
		out = append(out, s)
	}
	return out
}

func min(a, b int) int {
	if a < b {
		return a
	}
	return b
}

// ExecParams re-executes one recorded case.
func ExecParams(suite string, params json.RawMessage) (*Failure, string, error) {
	switch suite {
	case "log":
		c := &LogCase{}
		if err := json.Unmarshal(params, c); err != nil {
			return nil, "", err
		}
		if len(c.Stages) == 0 {
			return nil, "", fmt.Errorf("empty case")
		}
		out := RunLogCase(c, c.Stages[len(c.Stages)-1].Crash == nil)
		if out.Infra != "" {
			return nil, "", fmt.Errorf("%s", out.Infra)
		}
		return out.Fail, describe(c.String(), out.Trace, out.Inflight, out.HitCall, imgString(out.CrashImg), out.Recovered), nil
	case "state":
		c := &StateCase{}
		if err := json.Unmarshal(params, c); err != nil {
			return nil, "", err
		}
		out := RunStateCase(c, c.Crash == nil)
		if out.Infra != "" {
			return nil, "", fmt.Errorf("%s", out.Infra)
		}
		im := ""
		if out.CrashImg != nil {
			im = out.CrashImg.String()
		}
		return out.Fail, describe(c.String(), out.Trace, out.Inflight, out.HitCall, im, out.Recovered), nil
	case "snapshot":
		c := &SnapCase{}
		if err := json.Unmarshal(params, c); err != nil {
			return nil, "", err
		}
		out := RunSnapCase(c, c.Crash == nil)
		if out.Infra != "" {
			return nil, "", fmt.Errorf("%s", out.Infra)
		}
		im := ""
		if out.CrashImg != nil {
			im = out.CrashImg.String()
			if len(im) > 600 {
				im = im[:600] + "..."
			}
		}
		return out.Fail, describe(c.String(), out.Trace, out.Inflight, out.HitCall, im, out.Recovered), nil
	}
	return nil, "", fmt.Errorf("unknown crash suite %q", suite)
}

func imgString(li *logImage) string {
	if li == nil {
		return ""
	}
	return li.String()
}

func describe(c string, trace []CallRec, inflight, hit, img, recovered string) string {
	var b bytes.Buffer
	fmt.Fprintf(&b, "case: %s\n", c)
	fmt.Fprintf(&b, "file-system calls of the (last) crashed incarnation (* = mutating):\n")
	for i, t := range trace {
		fmt.Fprintf(&b, "  %3d %s\n", i, t)
	}
	fmt.Fprintf(&b, "in-flight operation: %s\ninterrupted call: %s\nimage at recovery: %s\nrecovered: %s\n", inflight, hit, img, recovered)
	return b.String()
}

// Replay re-executes a recorded failing (program, crash point).
func Replay(r *common.Replay, path string) int {
	vos.Track = true
	Scratch()
	defer Cleanup()
	f, desc, err := ExecParams(r.Suite, r.Params)
	Uninstall()
	vos.Reset()
	if err != nil {
		fmt.Println("INFRA: replay:", err)
		Cleanup()
		return 2
	}
	fmt.Print(desc)
	if f == nil {
		fmt.Println("replay finished without a violation of", r.Property)
		return 0
	}
	if f.Sig != r.Signature {
		fmt.Printf("NOTE: recorded signature was %q\n", r.Signature)
	}
	fmt.Printf("VIOLATION property=%s replay=%s signature=%q detail=%q\n", r.Property, path, f.Sig, f.Detail)
	Cleanup()
	return 1
}
