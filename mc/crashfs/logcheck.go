package crashfs

import (
	"bytes"
	"encoding/binary"
	"fmt"
	"os"
	"path/filepath"
	"strings"

	"github.com/jmsadair/raft"
	"github.com/jmsadair/raft/verifshim/vos"

	"verif/mc/sim"
)

// ---------------------------------------------------------------------------
// programs

// EntrySpec spells out one entry of an append (data is generated from index
// and length, see mkData; Len -1 = nil data).
type EntrySpec struct {
	Index uint64 `json:"i"`
	Term  uint64 `json:"t"`
	Type  uint32 `json:"ty"`
	Len   int    `json:"len"`
}

func mkData(index uint64, n int) []byte {
	if n < 0 {
		return nil
	}
	b := make([]byte, n)
	for i := range b {
		b[i] = byte((uint64(i)*31 + index*17 + 5) % 251)
	}
	return b
}

func (e EntrySpec) entry() *raft.LogEntry {
	return raft.NewLogEntry(e.Index, e.Term, mkData(e.Index, e.Len), raft.LogEntryType(e.Type))
}

var typeNames = []string{"NoOp", "Op", "Conf"}

func (e EntrySpec) String() string {
	d := "nil"
	if e.Len >= 0 {
		d = fmt.Sprintf("%dB", e.Len)
	}
	return fmt.Sprintf("%d/t%d/%s/%s", e.Index, e.Term, typeNames[e.Type%3], d)
}

// LogOp is one operation of a log program.
type LogOp struct {
	Op      string      `json:"op"` // append | truncate | compact | discard | reopen
	Entries []EntrySpec `json:"entries,omitempty"`
	Index   uint64      `json:"index,omitempty"`
	Term    uint64      `json:"term,omitempty"`
	inR     bool        // belongs to the reduced alphabet too
}

func (o LogOp) String() string {
	switch o.Op {
	case "append":
		var s []string
		for _, e := range o.Entries {
			s = append(s, e.String())
		}
		return "Append[" + strings.Join(s, " ") + "]"
	case "truncate":
		return fmt.Sprintf("Truncate(%d)", o.Index)
	case "compact":
		return fmt.Sprintf("Compact(%d)", o.Index)
	case "discard":
		return fmt.Sprintf("Discard(%d,t%d)", o.Index, o.Term)
	case "reopen":
		return "Close+Reopen"
	}
	return o.Op
}

// LogStage is one incarnation of the process: open (create or recover), run
// Ops, die at Crash. A stage without Crash runs to completion (trace
// recording).
type LogStage struct {
	Ops   []LogOp `json:"ops"`
	Crash *Point  `json:"crash,omitempty"`
}

// LogCase is a program with its crash point(s); more than one stage = nested
// crashes.
type LogCase struct {
	Stages []LogStage `json:"stages"`
}

func (c *LogCase) String() string {
	var b strings.Builder
	for i, st := range c.Stages {
		if i > 0 {
			b.WriteString(" || recover; ")
		}
		b.WriteString("Open")
		for _, op := range st.Ops {
			b.WriteString("; " + op.String())
		}
		if st.Crash != nil {
			b.WriteString(" !crash@" + st.Crash.String())
		}
	}
	return b.String()
}

func (c *LogCase) withCrash(p Point) *LogCase {
	n := &LogCase{Stages: append([]LogStage(nil), c.Stages...)}
	last := &n.Stages[len(n.Stages)-1]
	pp := p
	last.Crash = &pp
	return n
}

// the nine (type, data) variants: v = 3*type + data class
var dataLens = []int{-1, 1, 300}

func variant(v int, index, term uint64) EntrySpec {
	v %= 9
	return EntrySpec{Index: index, Term: term, Type: uint32(v / 3), Len: dataLens[v%3]}
}

func newModel(d *sim.LogDisk) *sim.MemLog {
	m := sim.NewMemLog(0, d, nil)
	_ = m.Open()
	_ = m.Replay()
	return m
}

// LogAlphabetRule documents logAlphabet.
const LogAlphabetRule = "alphabet at a reference-log state with contained indices first+1..last: Append(1), AppendBatch(2), AppendBatch(3) each in V variants (entry k of a batch has (type,data) variant (v+4k) mod 9 of the 9 combinations {NoOp,Operation,Configuration}x{nil,1B,300B}; term = last term+1); Truncate(i), Compact(i), Discard(i,term(i)) for EVERY contained i; Discard(last+2,last term+1); Close+Reopen. Full alphabet F: V = all 9; reduced alphabet R: V = {(NoOp,nil),(Operation,1B),(Configuration,300B)} (data variety reduced, op alphabet and index ranges are not)"

// logAlphabet lists the operations enabled at a reference-model state. Index
// validity is computed with the reference model (Contains).
func logAlphabet(d *sim.LogDisk, full bool) []LogOp {
	m := newModel(d.Clone())
	next, lt, size := m.NextIndex(), m.LastTerm(), m.Size()
	last := m.LastIndex()
	first := next - 1 - uint64(size)
	vs := []int{0, 4, 8}
	if full {
		vs = []int{0, 1, 2, 3, 4, 5, 6, 7, 8}
	}
	var ops []LogOp
	for n := 1; n <= 3; n++ {
		for _, v := range vs {
			op := LogOp{Op: "append", inR: v == 0 || v == 4 || v == 8}
			for k := 0; k < n; k++ {
				op.Entries = append(op.Entries, variant(v+4*k, next+uint64(k), lt+1))
			}
			ops = append(ops, op)
		}
	}
	var contained []uint64
	for i := first + 1; i <= last; i++ {
		if m.Contains(i) {
			contained = append(contained, i)
		}
	}
	for _, i := range contained {
		ops = append(ops, LogOp{Op: "truncate", Index: i, inR: true})
	}
	for _, i := range contained {
		ops = append(ops, LogOp{Op: "compact", Index: i, inR: true})
	}
	for _, i := range contained {
		e, _ := m.GetEntry(i)
		ops = append(ops, LogOp{Op: "discard", Index: i, Term: e.Term, inR: true})
	}
	ops = append(ops, LogOp{Op: "discard", Index: last + 2, Term: lt + 1, inR: true})
	ops = append(ops, LogOp{Op: "reopen", inR: true})
	return ops
}

// applyLogOp runs one operation on a log (real or model). For "reopen" the
// handle is closed and reopen() builds the next one.
func applyLogOp(l raft.Log, op LogOp, reopen func() (raft.Log, string, error)) (raft.Log, string, error) {
	switch op.Op {
	case "append":
		es := make([]*raft.LogEntry, len(op.Entries))
		for i, s := range op.Entries {
			es[i] = s.entry()
		}
		if len(es) == 1 {
			return l, "append", l.AppendEntry(es[0])
		}
		return l, "append", l.AppendEntries(es)
	case "truncate":
		return l, "truncate", l.Truncate(op.Index)
	case "compact":
		return l, "compact", l.Compact(op.Index)
	case "discard":
		return l, "discard", l.DiscardEntries(op.Index, op.Term)
	case "reopen":
		if err := l.Close(); err != nil {
			return l, "close", err
		}
		nl, step, err := reopen()
		if err != nil {
			return l, step, err
		}
		return nl, "reopen", nil
	}
	return l, op.Op, fmt.Errorf("unknown op %q", op.Op)
}

func openRealLog(dir string) (raft.Log, string, error) {
	l, err := raft.NewLog(dir)
	if err != nil {
		return nil, "newlog", err
	}
	if err := l.Open(); err != nil {
		return nil, "open", err
	}
	if err := l.Replay(); err != nil {
		return nil, "replay", err
	}
	return l, "", nil
}

// EnumLogPrograms visits every program, shortest first: all sequences of
// length <= fullLen over the full alphabet, and for fullLen < L <= maxLen all
// sequences whose first L-1 operations come from the reduced alphabet and
// whose last operation comes from the full one. Every proper prefix of an
// enumerated program is enumerated too, so a crash inside operation m < L of a
// program is executed once, as a crash inside the last operation of its
// prefix of length m (the runs are identical: the suffix never executes).
func EnumLogPrograms(maxLen, fullLen int, visit func(idx int, prog []LogOp) bool) int {
	idx := 0
	stop := false
	var dfs func(L int, prog []LogOp, d *sim.LogDisk)
	dfs = func(L int, prog []LogOp, d *sim.LogDisk) {
		if stop {
			return
		}
		if len(prog) == L {
			if !visit(idx, prog) {
				stop = true
			}
			idx++
			return
		}
		full := L <= fullLen || len(prog) == L-1
		for _, op := range logAlphabet(d, full) {
			nd := d.Clone()
			m := newModel(nd)
			if _, _, err := applyLogOp(m, op, func() (raft.Log, string, error) { return newModel(nd), "", nil }); err != nil {
				panic("reference model rejects an enumerated operation: " + err.Error())
			}
			dfs(L, append(prog[:len(prog):len(prog)], op), nd)
			if stop {
				return
			}
		}
	}
	start := &sim.LogDisk{}
	newModel(start) // placeholder
	for L := 0; L <= maxLen && !stop; L++ {
		dfs(L, nil, start.Clone())
	}
	return idx
}

// ---------------------------------------------------------------------------
// observation through the public API

type obsEnt struct {
	Index, Term uint64
	Type        raft.LogEntryType
	Data        []byte
}

type logObs struct {
	First, LastIndex, LastTerm, NextIndex uint64
	Size                                  int
	Ents                                  []obsEnt
	Bad                                   string
}

func observeLog(l raft.Log) *logObs {
	o := &logObs{NextIndex: l.NextIndex(), Size: l.Size(), LastIndex: l.LastIndex(), LastTerm: l.LastTerm()}
	o.First = o.NextIndex - 1 - uint64(o.Size)
	if o.Size < 0 {
		o.Bad = "negative size"
		return o
	}
	for p := 1; p <= o.Size; p++ {
		i := o.First + uint64(p)
		e, err := l.GetEntry(i)
		if err != nil {
			o.Bad = fmt.Sprintf("GetEntry(%d): %v", i, err)
			return o
		}
		if !l.Contains(i) {
			o.Bad = fmt.Sprintf("Contains(%d)=false for a readable entry", i)
		}
		o.Ents = append(o.Ents, obsEnt{e.Index, e.Term, e.EntryType, e.Data})
	}
	if l.Contains(o.First) {
		o.Bad = fmt.Sprintf("Contains(first=%d)=true", o.First)
	}
	if l.Contains(o.NextIndex) {
		o.Bad = fmt.Sprintf("Contains(next=%d)=true", o.NextIndex)
	}
	if _, err := l.GetEntry(o.NextIndex); err == nil {
		o.Bad = fmt.Sprintf("GetEntry(next=%d) succeeded", o.NextIndex)
	}
	return o
}

// checkOffsets: LogEntry.Offset is public and is what Truncate cuts the file
// at; for every readable entry it must be the byte position of the entry's
// record in log.bin (the placeholder is record 0).
func checkOffsets(l raft.Log, dir string) string {
	data, err := os.ReadFile(filepath.Join(dir, "log", "log.bin"))
	if err != nil {
		return ""
	}
	var pos []int64
	off := 0
	for len(data)-off >= 4 {
		size := int(int32(binary.BigEndian.Uint32(data[off:])))
		if size < 0 || len(data)-off-4 < size {
			break
		}
		pos = append(pos, int64(off))
		off += 4 + size
	}
	size := l.Size()
	if size < 0 || len(pos) != size+1 {
		return "" // content checks report this
	}
	first := l.NextIndex() - 1 - uint64(size)
	for p := 1; p <= size; p++ {
		e, err := l.GetEntry(first + uint64(p))
		if err != nil {
			return ""
		}
		if e.Offset != pos[p] {
			return fmt.Sprintf("entry %d reports offset %d, its record starts at byte %d of log.bin", e.Index, e.Offset, pos[p])
		}
	}
	return ""
}

func (o *logObs) equal(p *logObs) bool {
	if o.Bad != "" || p.Bad != "" {
		return false
	}
	if o.First != p.First || o.LastIndex != p.LastIndex || o.LastTerm != p.LastTerm || o.NextIndex != p.NextIndex || o.Size != p.Size || len(o.Ents) != len(p.Ents) {
		return false
	}
	for i := range o.Ents {
		a, b := o.Ents[i], p.Ents[i]
		// nil and empty data are equal
		if a.Index != b.Index || a.Term != b.Term || a.Type != b.Type || !bytes.Equal(a.Data, b.Data) {
			return false
		}
	}
	return true
}

func (o *logObs) String() string {
	var b strings.Builder
	fmt.Fprintf(&b, "first=%d last=%d/t%d size=%d [", o.First, o.LastIndex, o.LastTerm, o.Size)
	for i, e := range o.Ents {
		if i > 0 {
			b.WriteString(" ")
		}
		if i >= 8 {
			fmt.Fprintf(&b, "...+%d", len(o.Ents)-i)
			break
		}
		fmt.Fprintf(&b, "%d/t%d/%s/%dB", e.Index, e.Term, typeNames[int(e.Type)%3], len(e.Data))
	}
	b.WriteString("]")
	if o.Bad != "" {
		b.WriteString(" INCONSISTENT: " + o.Bad)
	}
	return b.String()
}

func obsOfDisk(d *sim.LogDisk) *logObs { return observeLog(newModel(d.Clone())) }

func matchLog(o *logObs, allowed []*sim.LogDisk) *sim.LogDisk {
	for _, d := range allowed {
		if o.equal(obsOfDisk(d)) {
			return d.Clone()
		}
	}
	return nil
}

func allowedString(allowed []*sim.LogDisk) string {
	var s []string
	for _, d := range allowed {
		s = append(s, obsOfDisk(d).String())
	}
	return strings.Join(s, " | ")
}

// alternatives lists what a crash inside op may leave: the state before it,
// the state after it, and for an append every prefix of its entries.
func alternatives(before, after *sim.LogDisk, op LogOp) []*sim.LogDisk {
	out := []*sim.LogDisk{before.Clone()}
	if op.Op == "append" {
		d := before.Clone()
		for _, s := range op.Entries {
			e := s.entry()
			d.Entries = append(d.Entries, *e)
			out = append(out, d.Clone())
		}
		return out
	}
	return append(out, after.Clone())
}

// ---------------------------------------------------------------------------
// the image a crash leaves

type logImage struct {
	Img       *Image
	Exists    bool
	Size      int64
	Records   int
	Tail      string // clean | torn-length-prefix | orphan-header | torn-body | no-file
	TailBytes int
	Tmp       bool
}

func inspectLog(dir string) *logImage {
	li := &logImage{Img: TakeImage(dir)}
	for _, e := range li.Img.Entries {
		if strings.HasPrefix(filepath.Base(e.Path), "tmp") {
			li.Tmp = true
		}
	}
	data, err := os.ReadFile(filepath.Join(dir, "log", "log.bin"))
	if err != nil {
		li.Tail = "no-file"
		return li
	}
	li.Exists, li.Size = true, int64(len(data))
	off := 0
	for {
		rest := len(data) - off
		switch {
		case rest == 0:
			li.Tail = "clean"
			return li
		case rest < 4:
			li.Tail, li.TailBytes = "torn-length-prefix", rest
			return li
		}
		size := int(int32(binary.BigEndian.Uint32(data[off:])))
		if size < 0 || rest-4 < size {
			li.TailBytes = rest
			if rest == 4 {
				li.Tail = "orphan-header"
			} else {
				li.Tail = "torn-body"
			}
			return li
		}
		off += 4 + size
		li.Records++
	}
}

func (li *logImage) String() string {
	return fmt.Sprintf("%s; log.bin: %d complete records, tail=%s(%d bytes)", li.Img, li.Records, li.Tail, li.TailBytes)
}

func tailAlias(t string) string {
	switch t {
	case "torn-length-prefix":
		return "crash-inside-length-prefix"
	case "torn-body":
		return "crash-inside-record-body"
	case "orphan-header":
		return "header-complete-body-absent"
	case "clean":
		return "clean-tail"
	}
	return t
}

type logHist struct {
	img          *logImage
	torn         string // the crash cut a write to log.bin short: which part of a record
	accepted     bool   // a recovery over this image succeeded with allowed content
	keptOrphan   bool   // ... and left a trailing "header complete, body absent" in the file
	appendsAfter int    // appends started afterwards (completed or in flight)
}

func tornKind(hit *CallRec, p *Point) string {
	if hit == nil || p == nil || p.J <= 0 || hit.Op != "Write" || filepath.Base(hit.Path) != "log.bin" {
		return ""
	}
	if hit.N == 4 {
		return "crash-inside-length-prefix"
	}
	return "crash-inside-record-body"
}

// classifyLog turns an oracle failure into a signature: the failed oracle
// clause plus the shape of the crash image that is its cause.
func classifyLog(hist []*logHist, phase, step string, lost bool) string {
	// A recovery that fails right after a crash that tore a write to log.bin
	// is attributed to that torn write (whatever happened before).
	if n := len(hist); n > 0 && phase == "recover" && step == "replay" && hist[n-1].torn != "" {
		return "replay-error:" + hist[n-1].torn
	}
	// Otherwise, if an earlier recovery accepted "header complete, body
	// absent" as end-of-log without repairing the file, what goes wrong after
	// the next append (completed or in flight) is attributed to that.
	for _, h := range hist {
		if h.accepted && h.keptOrphan {
			if h.appendsAfter > 0 {
				return "orphan-header-accepted:next-append-corrupts"
			}
			return "orphan-header-accepted:" + phase + "-" + step
		}
	}
	if len(hist) == 0 {
		return "model-disagreement:" + step
	}
	x := hist[len(hist)-1].img
	switch phase {
	case "recover":
		switch step {
		case "newlog":
			if x.Tmp {
				return "reopen-error:tmp-file-left"
			}
			return "reopen-error:newlog-fails:" + tailAlias(x.Tail)
		case "open":
			return "reopen-error:open-fails:" + tailAlias(x.Tail)
		case "replay":
			return "replay-error:" + tailAlias(x.Tail)
		case "content":
			bucket := "torn-tail"
			if x.Tail == "clean" || x.Tail == "no-file" {
				bucket = "clean-tail"
			}
			if lost {
				return "lost-returned-entry:" + bucket
			}
			return "unexpected-content:" + bucket
		}
	case "clean":
		return "model-disagreement-after-recovery:" + step + ":" + tailAlias(x.Tail)
	}
	return phase + "-fails:" + step + ":" + tailAlias(x.Tail)
}

type pastState struct {
	kind string // operation that produced the state
	disk *sim.LogDisk
}

// contentSig classifies a recovered log that is none of the allowed states:
// if it equals an earlier reference state, the operations that returned after
// that state have been undone; otherwise entries are missing or wrong.
func contentSig(hist []*logHist, past []pastState, o *logObs, allowed []*sim.LogDisk) string {
	sig := classifyLog(hist, "recover", "content", lostEntries(o, allowed))
	if !strings.HasPrefix(sig, "lost-returned-entry") && !strings.HasPrefix(sig, "unexpected-content") {
		return sig
	}
	for j := len(past) - 2; j >= 0; j-- {
		if o.equal(obsOfDisk(past[j].disk)) {
			return "returned-operation-not-durable:" + past[j+1].kind
		}
	}
	return sig
}

// lostEntries: the recovered log lacks entries that every allowed state has.
func lostEntries(o *logObs, allowed []*sim.LogDisk) bool {
	if o.Bad != "" {
		return false
	}
	min := -1
	for _, d := range allowed {
		if n := len(d.Entries) - 1; min < 0 || n < min {
			min = n
		}
	}
	return o.Size < min
}

// ---------------------------------------------------------------------------
// running a case

type logOutcome struct {
	Fail      *Failure
	Infra     string
	Trace     []CallRec // of the last stage
	Bounds    []int     // last stage: Bounds[i] = first call of op i (op 0 = opening); last element = calls in total
	PreImg    uint64    // recording run: image before / after the last operation
	PostImg   uint64
	CrashImg  *logImage
	Matched   *sim.LogDisk // reference state established by the final recovery
	Checks    int          // comparisons with the reference model
	Denied    int          // calls attempted by dead incarnations
	Inflight  string
	HitCall   string
	Recovered string
}

const contMarker = 0xC0

// RunLogCase executes a case on a fresh directory. record: the last stage has
// no crash point; its trace, operation boundaries and before/after images are
// returned. Otherwise every stage ends in its crash, and after the last one
// the log is recovered (NewLog+Open+Replay, first attempt, no interceptor),
// compared with the allowed states, and put through the fixed continuation.
func RunLogCase(c *LogCase, record bool) (out *logOutcome) {
	out = &logOutcome{}
	dir := FreshDir()
	ResetTemp()
	defer Uninstall()
	allowed := []*sim.LogDisk{{}}
	var hist []*logHist
	noteAppend := func() {
		for _, h := range hist {
			if h.accepted {
				h.appendsAfter++
			}
		}
	}
	accept := func() {
		if n := len(hist); n > 0 {
			hist[n-1].accepted = true
			if hist[n-1].img.Tail == "orphan-header" {
				hist[n-1].keptOrphan = inspectLog(dir).Tail == "orphan-header"
			}
		}
	}
	// every reference state the case went through, with the operation that
	// produced it (to say which returned operation a recovery has undone)
	past := []pastState{{"create", &sim.LogDisk{}}}
	for si := range c.Stages {
		st := &c.Stages[si]
		last := si == len(c.Stages)-1
		if st.Crash == nil && !(record && last) {
			out.Infra = "stage without crash point"
			return
		}
		inj := NewInjector(dir, st.Crash)
		if record && last && len(st.Ops) == 0 {
			out.PreImg = TakeImage(dir).Hash
		}
		bounds := []int{0}
		inflight := "Open (create or recover)"
		inj.Install()
		func() {
			defer func() {
				if r := recover(); r != nil && !inj.Dead {
					out.Fail = failf("panic:"+inflight, "panic in a live incarnation during %s: %v (case %s)", inflight, r, c)
				}
			}()
			real, step, err := openRealLog(dir)
			if inj.Dead {
				return // died while opening: logical content unchanged
			}
			if err != nil {
				phase := "recover"
				if len(hist) == 0 {
					phase = "clean"
				}
				out.Fail = failf(classifyLog(hist, phase, step, false), "%s failed on the first attempt: %v; image: %s; case: %s", step, err, lastImage(hist), c)
				return
			}
			obs := observeLog(real)
			out.Checks++
			disk := matchLog(obs, allowed)
			if disk == nil {
				out.Fail = failf(contentSig(hist, past, obs, allowed), "recovered log %s is none of the allowed states %s; image: %s; case: %s", obs, allowedString(allowed), lastImage(hist), c)
				return
			}
			accept()
			model := raft.Log(newModel(disk))
			bounds = append(bounds, len(inj.Trace))
			for oi, op := range st.Ops {
				if record && last && oi == len(st.Ops)-1 {
					out.PreImg = TakeImage(dir).Hash
				}
				inflight = fmt.Sprintf("op %d %s", oi+1, op)
				before := disk.Clone()
				var mstep, rstep string
				var merr, rerr error
				if op.Op == "append" {
					noteAppend()
				}
				model, mstep, merr = applyLogOp(model, op, func() (raft.Log, string, error) { return newModel(disk), "", nil })
				real, rstep, rerr = applyLogOp(real, op, func() (raft.Log, string, error) { return openRealLog(dir) })
				if inj.Dead {
					allowed = alternatives(before, disk, op)
					return
				}
				out.Checks++
				if (merr == nil) != (rerr == nil) || mstep != rstep || (merr != nil && merr.Error() != rerr.Error()) {
					out.Fail = failf(classifyLog(hist, "clean", "return-value:"+op.Op, false), "%s returned %v (step %s), the reference model %v (step %s); case: %s", op, rerr, rstep, merr, mstep, c)
					return
				}
				ro, mo := observeLog(real), observeLog(model)
				out.Checks++
				if !ro.equal(mo) {
					out.Fail = failf(classifyLog(hist, "clean", "content:"+op.Op, false), "after %s the log reads %s, the reference model %s; case: %s", op, ro, mo, c)
					return
				}
				if bad := checkOffsets(real, dir); bad != "" {
					out.Fail = failf("entry-offset-differs-from-file-position:after-"+op.Op, "after %s: %s; case: %s", op, bad, c)
					return
				}
				past = append(past, pastState{op.Op, disk.Clone()})
				bounds = append(bounds, len(inj.Trace))
			}
			if st.Crash == nil {
				// recording run: invalid indices must fail without effect
				out.Fail = checkInvalid(real, model, inj, c, &out.Checks)
				return
			}
			if st.Crash.K != len(inj.Trace) {
				out.Infra = fmt.Sprintf("crash point %v not reached: the stage made %d calls (case %s)", *st.Crash, len(inj.Trace), c)
				return
			}
			inj.Kill()
			inflight = "none (after the last call)"
			allowed = []*sim.LogDisk{disk.Clone()}
		}()
		Uninstall()
		out.Denied += inj.DeniedAfter
		if last {
			out.Trace, out.Bounds, out.Inflight = inj.Trace, bounds, inflight
			if inj.Hit != nil {
				out.HitCall = inj.Hit.String()
			}
		}
		if out.Fail != nil || out.Infra != "" {
			return
		}
		if st.Crash == nil {
			out.PostImg = TakeImage(dir).Hash
			return
		}
		if !inj.Dead {
			out.Infra = fmt.Sprintf("stage %d ended without reaching its crash point (case %s)", si, c)
			return
		}
		img := inspectLog(dir)
		hist = append(hist, &logHist{img: img, torn: tornKind(inj.Hit, st.Crash)})
		if last {
			out.CrashImg = img
		}
	}

	// Recovery, first attempt, and the fixed continuation.
	real, step, err := openRealLog(dir)
	if err != nil {
		out.Fail = failf(classifyLog(hist, "recover", step, false), "%s failed on the first attempt after the crash: %v; crashed during %s at %s; image: %s; case: %s", step, err, out.Inflight, out.HitCall, lastImage(hist), c)
		return
	}
	obs := observeLog(real)
	out.Checks++
	out.Recovered = obs.String()
	disk := matchLog(obs, allowed)
	if disk == nil {
		out.Fail = failf(contentSig(hist, past, obs, allowed), "recovered log %s is none of the allowed states %s; crashed during %s at %s; image: %s; case: %s", obs, allowedString(allowed), out.Inflight, out.HitCall, lastImage(hist), c)
		return
	}
	accept()
	if bad := checkOffsets(real, dir); bad != "" {
		out.Fail = failf("entry-offset-differs-from-file-position:after-recovery", "after recovery: %s; crashed during %s at %s; case: %s", bad, out.Inflight, out.HitCall, c)
		return
	}
	out.Matched = disk.Clone()
	model := newModel(disk)
	ci, ct := model.NextIndex(), model.LastTerm()+1
	fresh := func() *raft.LogEntry {
		return raft.NewLogEntry(ci, ct, []byte{contMarker, byte(ci), 'c', 'o', 'n', 't'}, raft.OperationEntry)
	}
	noteAppend()
	merr, rerr := model.AppendEntry(fresh()), real.AppendEntry(fresh())
	out.Checks++
	if merr != nil || rerr != nil {
		out.Fail = failf(classifyLog(hist, "continuation", "append", false), "continuation AppendEntry on the recovered log returned %v (model %v); image: %s; case: %s", rerr, merr, lastImage(hist), c)
		return
	}
	if ro, mo := observeLog(real), observeLog(model); !ro.equal(mo) {
		out.Fail = failf(classifyLog(hist, "continuation", "append-content", false), "after the continuation append the log reads %s, the model %s; image: %s; case: %s", ro, mo, lastImage(hist), c)
		return
	}
	for round := 1; round <= 2; round++ {
		if err := real.Close(); err != nil {
			out.Fail = failf(classifyLog(hist, "continuation", "close", false), "Close: %v; case: %s", err, c)
			return
		}
		real, step, err = openRealLog(dir)
		if err != nil {
			out.Fail = failf(classifyLog(hist, "continuation", fmt.Sprintf("reopen%d-%s", round, step), false), "after recovering (%s) and appending one entry, reopen #%d failed in %s: %v; crashed during %s at %s; image at recovery: %s; case: %s", out.Recovered, round, step, err, out.Inflight, out.HitCall, lastImage(hist), c)
			return
		}
		ro, mo := observeLog(real), observeLog(newModel(disk))
		out.Checks++
		if !ro.equal(mo) {
			out.Fail = failf(classifyLog(hist, "continuation", fmt.Sprintf("reopen%d-content", round), false), "after recovering (%s) and appending one entry, reopen #%d reads %s, the model %s; crashed during %s at %s; image at recovery: %s; case: %s", out.Recovered, round, ro, mo, out.Inflight, out.HitCall, lastImage(hist), c)
			return
		}
	}
	_ = real.Close()
	return
}

func lastImage(hist []*logHist) string {
	if len(hist) == 0 {
		return "(no crash yet)"
	}
	return hist[len(hist)-1].img.String()
}

// checkInvalid: Truncate/Compact/GetEntry of indices outside the log fail, do
// not touch the disk and change nothing.
func checkInvalid(real, model raft.Log, inj *Injector, c *LogCase, checks *int) *Failure {
	before := observeLog(real)
	first, next := before.First, before.NextIndex
	cand := []uint64{first, next, next + 5, 0, ^uint64(0)}
	for _, i := range cand {
		if model.Contains(i) {
			continue
		}
		mut := Mutating(inj.Trace, 0, len(inj.Trace))
		for _, name := range []string{"Truncate", "Compact", "GetEntry"} {
			var rerr, merr error
			switch name {
			case "Truncate":
				rerr, merr = real.Truncate(i), model.Truncate(i)
			case "Compact":
				rerr, merr = real.Compact(i), model.Compact(i)
			case "GetEntry":
				_, rerr = real.GetEntry(i)
				_, merr = model.GetEntry(i)
			}
			*checks++
			if rerr == nil || merr == nil || rerr.Error() != merr.Error() {
				return failf("invalid-index-accepted:"+name, "%s(%d) on a log %s returned %v (model %v); case: %s", name, i, before, rerr, merr, c)
			}
		}
		if Mutating(inj.Trace, 0, len(inj.Trace)) != mut {
			return failf("invalid-index-touches-disk", "operations on the invalid index %d issued mutating file-system calls; case: %s", i, c)
		}
		if real.Contains(i) {
			return failf("invalid-index-accepted:Contains", "Contains(%d) is true on a log %s; case: %s", i, before, c)
		}
	}
	*checks++
	if after := observeLog(real); !after.equal(before) {
		return failf("invalid-index-has-effect", "log changed from %s to %s by operations on invalid indices; case: %s", before, after, c)
	}
	return nil
}

var _ = vos.Proceed
