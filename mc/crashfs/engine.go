// Package crashfs is the CRASH engine: it runs storage programs of the real
// library over a real directory on tmpfs, with every file-system call passing
// through the vos shim, and enumerates process-crash points: before every
// mutating call, after every byte prefix of every write (bounded for large
// writes, see PrefixPoints) and after the last call. After the crash point
// every later call of the dead incarnation is denied. Recovery runs the
// library's own constructors over the directory image that is left.
//
// Fault model: completed calls are durable, an in-flight write leaves any
// byte prefix, nothing is reordered (process crash, not power loss).
package crashfs

import (
	"fmt"
	"hash/fnv"
	"io"
	"os"
	"os/signal"
	"path/filepath"
	"regexp"
	"sort"
	"strings"
	"syscall"

	"github.com/jmsadair/raft/verifshim/vos"
)

// Point is a crash point of one stage: the process dies at intercepted call
// number K (counted from 0 at the start of the stage). J < 0: before the call
// has any effect. J > 0 (writes only): after exactly J bytes of it reached the
// file. K == number of calls of the stage: after the last call.
type Point struct {
	K int `json:"k"`
	J int `json:"j"`
}

func (p Point) String() string {
	if p.J < 0 {
		return fmt.Sprintf("before-call-%d", p.K)
	}
	return fmt.Sprintf("call-%d-after-%d-bytes", p.K, p.J)
}

// CallRec is one intercepted call.
type CallRec struct {
	Op   string
	Path string // relative to the run directory
	N    int
	Mut  bool
}

func (c CallRec) String() string {
	m := ""
	if c.Mut {
		m = "*"
	}
	if c.Op == "Write" || c.Op == "WriteAt" || c.Op == "Truncate" {
		return fmt.Sprintf("%s%s(%s,%d)", m, c.Op, c.Path, c.N)
	}
	return fmt.Sprintf("%s%s(%s)", m, c.Op, c.Path)
}

// Injector numbers the calls of one stage, records them, and kills the
// process at its crash point.
type Injector struct {
	Trace       []CallRec
	Point       *Point
	Dead        bool
	Hit         *CallRec // the call that was interrupted (nil for "after the last call")
	DeniedAfter int      // calls the dead incarnation still attempted
	root        string
}

func NewInjector(root string, p *Point) *Injector { return &Injector{root: root, Point: p} }

func (in *Injector) Install() { vos.Intercept = in.intercept }

// Uninstall removes the interceptor and closes every descriptor the
// incarnation left open.
func Uninstall() {
	vos.Intercept = nil
	vos.CloseTracked()
}

func (in *Injector) rel(p string) string {
	if r, err := filepath.Rel(in.root, p); err == nil && !strings.HasPrefix(r, "..") {
		return r
	}
	return p
}

func (in *Injector) intercept(c *vos.Call) int {
	if in.Dead {
		in.DeniedAfter++
		return vos.Deny
	}
	k := len(in.Trace)
	rec := CallRec{Op: c.Op, Path: in.rel(c.Path), N: c.N, Mut: c.Mutating}
	in.Trace = append(in.Trace, rec)
	if in.Point != nil && k == in.Point.K {
		in.Dead = true
		in.Hit = &in.Trace[k]
		if in.Point.J >= 0 && (c.Op == "Write" || c.Op == "WriteAt") {
			return in.Point.J
		}
		return vos.Deny
	}
	return vos.Proceed
}

// Kill marks the incarnation dead (crash after the last call).
func (in *Injector) Kill() { in.Dead = true }

// Mutating counts the mutating calls in Trace[lo:hi].
func Mutating(tr []CallRec, lo, hi int) int {
	n := 0
	for _, c := range tr[lo:hi] {
		if c.Mut {
			n++
		}
	}
	return n
}

// PrefixRule documents PrefixPoints.
const PrefixRule = "a write of n bytes is cut after every j in 1..n-1 when n <= 16, otherwise after j in {1..8, n/2, n-2, n-1}"

// PrefixPoints lists the byte prefixes at which a write of n bytes is cut.
func PrefixPoints(n int) []int {
	var out []int
	if n <= 16 {
		for j := 1; j < n; j++ {
			out = append(out, j)
		}
		return out
	}
	seen := map[int]bool{}
	add := func(j int) {
		if j >= 1 && j < n && !seen[j] {
			seen[j] = true
			out = append(out, j)
		}
	}
	for j := 1; j <= 8; j++ {
		add(j)
	}
	add(n / 2)
	add(n - 2)
	add(n - 1)
	sort.Ints(out)
	return out
}

// Points lists the crash points inside Trace[lo:hi] plus "after the last call"
// (K = hi). Only mutating calls are crash points: dying before a read-only
// call leaves the same disk as dying after the preceding mutating call.
func Points(tr []CallRec, lo, hi int) []Point {
	var out []Point
	for k := lo; k < hi; k++ {
		c := tr[k]
		if !c.Mut {
			continue
		}
		out = append(out, Point{K: k, J: -1})
		if c.Op == "Write" || c.Op == "WriteAt" {
			for _, j := range PrefixPoints(c.N) {
				out = append(out, Point{K: k, J: j})
			}
		}
	}
	return append(out, Point{K: hi, J: -1})
}

// SameTrace checks that a crash run followed the recorded trace up to and
// including its crash point (the enumeration is only meaningful if runs are
// deterministic).
func SameTrace(rec, got []CallRec, upto int) error {
	for i := 0; i <= upto && i < len(rec); i++ {
		if i >= len(got) {
			return fmt.Errorf("crash run stopped at call %d, recorded trace has %d", len(got), len(rec))
		}
		if rec[i].Op != got[i].Op || rec[i].N != got[i].N || rec[i].Mut != got[i].Mut {
			return fmt.Errorf("call %d differs: recorded %v, crash run %v", i, rec[i], got[i])
		}
	}
	return nil
}

// ---------------------------------------------------------------------------
// scratch space and temp names

var scratchRoot string

// Scratch returns this process' scratch directory (created on first use).
func Scratch() string {
	if scratchRoot != "" {
		return scratchRoot
	}
	base := "/dev/shm"
	if fi, err := os.Stat(base); err != nil || !fi.IsDir() {
		base = os.TempDir()
	}
	scratchRoot = filepath.Join(base, fmt.Sprintf("verif-crash.%d", os.Getpid()))
	_ = os.RemoveAll(scratchRoot)
	if err := os.MkdirAll(scratchRoot, 0o755); err != nil {
		fmt.Println("INFRA: cannot create scratch directory:", err)
		os.Exit(2)
	}
	ch := make(chan os.Signal, 1)
	signal.Notify(ch, syscall.SIGINT, syscall.SIGTERM, syscall.SIGHUP)
	go func() {
		<-ch
		for _, f := range onSignal {
			f()
		}
		_ = os.RemoveAll(scratchRoot)
		os.Exit(2)
	}()
	return scratchRoot
}

// onSignal holds extra clean-ups for an interrupted run (the parent kills its
// workers and removes their scratch directories).
var onSignal []func()

// SweepStale removes scratch directories left by processes of this engine
// that no longer exist (killed with SIGKILL, machine reset).
func SweepStale() {
	base := filepath.Dir(ScratchOf(0))
	ents, err := os.ReadDir(base)
	if err != nil {
		return
	}
	for _, e := range ents {
		var pid int
		if n, _ := fmt.Sscanf(e.Name(), "verif-crash.%d", &pid); n != 1 || pid <= 0 || pid == os.Getpid() {
			continue
		}
		if err := syscall.Kill(pid, 0); err == syscall.ESRCH {
			_ = os.RemoveAll(filepath.Join(base, e.Name()))
		}
	}
}

// ScratchOf is the scratch directory of another process of this engine.
func ScratchOf(pid int) string {
	base := "/dev/shm"
	if fi, err := os.Stat(base); err != nil || !fi.IsDir() {
		base = os.TempDir()
	}
	return filepath.Join(base, fmt.Sprintf("verif-crash.%d", pid))
}

// Cleanup removes the scratch directory.
func Cleanup() {
	if scratchRoot != "" {
		_ = os.RemoveAll(scratchRoot)
	}
}

// FreshDir returns an empty run directory (always the same path, so traces
// and temp names are identical from run to run).
func FreshDir() string {
	d := filepath.Join(Scratch(), "run")
	_ = os.RemoveAll(d)
	if err := os.MkdirAll(d, 0o755); err != nil {
		fmt.Println("INFRA: cannot create run directory:", err)
		os.Exit(2)
	}
	return d
}

var tmpCounter int

// ResetTemp makes CreateTemp/MkdirTemp names deterministic: pattern + counter,
// like os.CreateTemp (pattern + random number) but reproducible.
func ResetTemp() {
	tmpCounter = 0
	vos.TempName = func(dir, pattern string) string {
		tmpCounter++
		if i := strings.LastIndexByte(pattern, '*'); i >= 0 {
			return pattern[:i] + fmt.Sprint(tmpCounter) + pattern[i+1:]
		}
		return pattern + fmt.Sprint(tmpCounter)
	}
}

// ---------------------------------------------------------------------------
// directory images

var snapName = regexp.MustCompile(`^snapshot-\d+$`)
var tsName = regexp.MustCompile(`snapshot-\d{12,}`)

// DirEntryInfo describes one file of an image.
type DirEntryInfo struct {
	Path string
	Dir  bool
	Size int64
}

// Image is a digest of a directory tree: names, kinds and file contents.
// Snapshot directories (named by wall-clock nanoseconds) are renamed by rank
// so that images of different runs of the same program are comparable.
type Image struct {
	Hash    uint64
	Entries []DirEntryInfo
	Pre     int // untouched pre-existing snapshot directories (not listed)
}

func (im *Image) String() string {
	var b strings.Builder
	for i, e := range im.Entries {
		if i > 0 {
			b.WriteString(" ")
		}
		if e.Dir {
			fmt.Fprintf(&b, "%s/", e.Path)
		} else {
			fmt.Fprintf(&b, "%s[%dB]", e.Path, e.Size)
		}
	}
	if im.Pre > 0 {
		fmt.Fprintf(&b, " (+%d pre-existing snapshot directories)", im.Pre)
	}
	if len(im.Entries) == 0 && im.Pre == 0 {
		return "(empty)"
	}
	return b.String()
}

// TakeImage digests the tree under root with the real os package (never
// intercepted).
func TakeImage(root string) *Image { return TakeImageSkip(root, nil) }

// TakeImageSkip is TakeImage, except that directories whose base name is in
// skip (pre-existing snapshots laid down from a template, which no run may
// modify) are represented by their rank only and not descended into.
func TakeImageSkip(root string, skip map[string]bool) *Image {
	im := &Image{}
	h := fnv.New64a()
	var walk func(dir, rel string)
	walk = func(dir, rel string) {
		ents, err := os.ReadDir(dir)
		if err != nil {
			return
		}
		rank := 0
		for _, e := range ents {
			name := e.Name()
			shown := name
			if e.IsDir() && snapName.MatchString(name) {
				shown = fmt.Sprintf("snapshot-#%02d", rank)
				rank++
			}
			p := filepath.Join(rel, shown)
			if e.IsDir() && skip[name] {
				fmt.Fprintf(h, "P %s\n", p)
				im.Pre++
				continue
			}
			if e.IsDir() {
				fmt.Fprintf(h, "D %s\n", p)
				im.Entries = append(im.Entries, DirEntryInfo{Path: p, Dir: true})
				walk(filepath.Join(dir, name), p)
				continue
			}
			f, err := os.Open(filepath.Join(dir, name))
			if err != nil {
				continue
			}
			fmt.Fprintf(h, "F %s\n", p)
			n, _ := io.Copy(h, f)
			f.Close()
			fmt.Fprintf(h, "\n%d\n", n)
			im.Entries = append(im.Entries, DirEntryInfo{Path: p, Size: n})
		}
	}
	walk(root, "")
	im.Hash = h.Sum64()
	return im
}

// CopyTree copies a directory tree (used to lay down pre-existing snapshots).
func CopyTree(src, dst string) error {
	return filepath.Walk(src, func(p string, info os.FileInfo, err error) error {
		if err != nil {
			return err
		}
		rel, _ := filepath.Rel(src, p)
		t := filepath.Join(dst, rel)
		if info.IsDir() {
			return os.MkdirAll(t, 0o755)
		}
		data, err := os.ReadFile(p)
		if err != nil {
			return err
		}
		return os.WriteFile(t, data, 0o644)
	})
}

// Failure is an oracle failure with its classifier output.
type Failure struct {
	Sig    string `json:"signature"`
	Detail string `json:"detail"`
}

func failf(sig, format string, a ...any) *Failure {
	d := fmt.Sprintf(format, a...)
	// snapshot directories are named by wall-clock nanoseconds
	d = tsName.ReplaceAllString(d, "snapshot-<ns>")
	// protobuf-go varies the space in its error texts from build to build
	d = strings.ReplaceAll(d, "\u00a0", " ")
	if scratchRoot != "" {
		// details must not depend on the process id
		d = strings.ReplaceAll(d, filepath.Join(scratchRoot, "run"), "<dir>")
		d = strings.ReplaceAll(d, scratchRoot, "<scratch>")
	}
	return &Failure{Sig: sig, Detail: d}
}

func errClass(err error) string {
	if err == nil {
		return "nil"
	}
	s := err.Error()
	switch {
	case strings.Contains(s, "unexpected EOF"):
		return "unexpected-eof"
	case strings.Contains(s, "no such file"):
		return "no-such-file"
	case strings.Contains(s, "unmarshal"):
		return "unmarshal"
	case strings.Contains(s, "not empty"):
		return "dir-not-empty"
	}
	return "other"
}
