// Package common holds what every engine shares: evidence files, replay
// files, known findings, violation reporting.
package common

import (
	"encoding/json"
	"fmt"
	"os"
	"path/filepath"
	"sort"
	"strconv"
	"time"
)

func Root() string {
	if r := os.Getenv("VERIF_ROOT"); r != "" {
		return r
	}
	return "/verif"
}

func Seed() int {
	n, _ := strconv.Atoi(os.Getenv("VERIF_SEED"))
	return n
}

type Evidence struct {
	PropertyID  string         `json:"property_id"`
	Tier        string         `json:"tier"`
	Seed        int            `json:"seed"`
	Level       string         `json:"level"`
	Coverage    map[string]any `json:"coverage"`
	Assumptions []string       `json:"assumptions,omitempty"`
	WallS       float64        `json:"wall_s"`
	Violations  int            `json:"violations"`
}

func (e *Evidence) Write() error {
	dir := filepath.Join(Root(), "evidence")
	if d := os.Getenv("VERIF_EVIDENCE_DIR"); d != "" {
		dir = d // mutation runs must not overwrite the evidence of the real tree
	}
	if err := os.MkdirAll(dir, 0o755); err != nil {
		return err
	}
	data, err := json.MarshalIndent(e, "", " ")
	if err != nil {
		return err
	}
	tmp := filepath.Join(dir, "."+e.PropertyID+".json.tmp")
	if err := os.WriteFile(tmp, data, 0o644); err != nil {
		return err
	}
	return os.Rename(tmp, filepath.Join(dir, e.PropertyID+".json"))
}

// Finding is one entry of known_findings.json.
type Finding struct {
	Property  string `json:"property"`
	Status    string `json:"status"` // open | fixed
	Signature string `json:"signature,omitempty"`
	Commit    string `json:"commit,omitempty"`
	What      string `json:"what"`
}

type Findings struct {
	Findings []Finding `json:"findings"`
}

func LoadFindings() (*Findings, error) {
	data, err := os.ReadFile(filepath.Join(Root(), "known_findings.json"))
	if os.IsNotExist(err) {
		return &Findings{}, nil
	}
	if err != nil {
		return nil, err
	}
	f := &Findings{}
	if err := json.Unmarshal(data, f); err != nil {
		return nil, err
	}
	return f, nil
}

// Known returns the open finding that lists this signature for the property.
func (f *Findings) Known(property, signature string) *Finding {
	for i := range f.Findings {
		k := &f.Findings[i]
		if k.Status == "open" && k.Property == property && k.Signature == signature {
			return k
		}
	}
	return nil
}

// Violation is what an oracle reports.
type Violation struct {
	Property  string `json:"property"`
	Signature string `json:"signature"` // classifier output (DESIGN 2.7)
	Detail    string `json:"detail"`
}

// Replay is the content of a replay file.
type Replay struct {
	Property  string          `json:"property"`
	Engine    string          `json:"engine"`
	Suite     string          `json:"suite"`
	Signature string          `json:"signature"`
	Detail    string          `json:"detail"`
	Params    json.RawMessage `json:"params,omitempty"`
	Events    json.RawMessage `json:"events,omitempty"`
	Trace     []string        `json:"trace,omitempty"`
}

func WriteReplay(r *Replay) (string, error) {
	dir := filepath.Join(Root(), "replays")
	if d := os.Getenv("VERIF_REPLAY_DIR"); d != "" {
		dir = d
	}
	if err := os.MkdirAll(dir, 0o755); err != nil {
		return "", err
	}
	data, err := json.MarshalIndent(r, "", " ")
	if err != nil {
		return "", err
	}
	var h uint64 = 14695981039346656037
	for _, c := range data {
		h ^= uint64(c)
		h *= 1099511628211
	}
	p := filepath.Join(dir, fmt.Sprintf("%s-%016x.json", r.Property, h))
	return p, os.WriteFile(p, data, 0o644)
}

func ReadReplay(path string) (*Replay, error) {
	data, err := os.ReadFile(path)
	if err != nil {
		return nil, err
	}
	r := &Replay{}
	return r, json.Unmarshal(data, r)
}

// Report collects the outcome of one check run and produces the interface
// lines and the exit code.
type Report struct {
	Property   string
	Findings   *Findings
	KnownSeen  map[string]string // signature -> what
	Violations []string          // "VIOLATION ..." lines
	Start      time.Time
}

func NewReport(property string) *Report {
	f, err := LoadFindings()
	if err != nil {
		fmt.Println("INFRA: known_findings.json:", err)
		os.Exit(2)
	}
	return &Report{Property: property, Findings: f, KnownSeen: map[string]string{}, Start: time.Now()}
}

// Add classifies a violation: known finding or new violation. It returns true
// when it is a new (unlisted) violation.
func (r *Report) Add(v *Violation, rp *Replay) bool {
	if k := r.Findings.Known(v.Property, v.Signature); k != nil {
		r.KnownSeen[v.Signature] = k.What
		return false
	}
	path := "-"
	if rp != nil {
		rp.Property, rp.Signature, rp.Detail = v.Property, v.Signature, v.Detail
		if p, err := WriteReplay(rp); err == nil {
			path = p
		}
	}
	r.Violations = append(r.Violations, fmt.Sprintf("VIOLATION property=%s replay=%s signature=%q detail=%q", v.Property, path, v.Signature, v.Detail))
	return true
}

// Finish prints the interface lines and returns the exit code.
func (r *Report) Finish() int {
	sigs := make([]string, 0, len(r.KnownSeen))
	for s := range r.KnownSeen {
		sigs = append(sigs, s)
	}
	sort.Strings(sigs)
	for _, s := range sigs {
		fmt.Printf("KNOWN-FINDING: property=%s %s [signature %s]\n", r.Property, r.KnownSeen[s], s)
	}
	for _, v := range r.Violations {
		fmt.Println(v)
	}
	if len(r.Violations) > 0 {
		return 1
	}
	return 0
}
