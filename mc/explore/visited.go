package explore

import (
	"encoding/binary"
	"fmt"
	"os"
	"sync/atomic"
	"syscall"
	"unsafe"
)

// Visited is an open-addressing hash set of 64-bit state fingerprints in a
// memory-mapped file, shared by all worker processes of one check. Slot 0 of
// the mapping counts successful inserts. A fingerprint is the first 8 bytes of
// the SHA-256 state key (0 is remapped); the collision probability for 10^7
// states is about 3e-6 and is stated in the evidence.
type Visited struct {
	slots []uint64
	mask  uint64
	data  []byte
	path  string
}

func OpenVisited(path string, logSlots uint, create bool) (*Visited, error) {
	size := int64(8) << logSlots
	flags := os.O_RDWR
	if create {
		flags |= os.O_CREATE | os.O_TRUNC
	}
	f, err := os.OpenFile(path, flags, 0o600)
	if err != nil {
		return nil, err
	}
	defer f.Close()
	if create {
		if err := f.Truncate(size + 64); err != nil {
			return nil, err
		}
	}
	data, err := syscall.Mmap(int(f.Fd()), 0, int(size+64), syscall.PROT_READ|syscall.PROT_WRITE, syscall.MAP_SHARED)
	if err != nil {
		return nil, fmt.Errorf("mmap: %w", err)
	}
	v := &Visited{data: data, path: path, mask: (uint64(1) << logSlots) - 1}
	v.slots = unsafe.Slice((*uint64)(unsafe.Pointer(&data[0])), (size+64)/8)
	return v, nil
}

func (v *Visited) Close() { syscall.Munmap(v.data) }

// Count is the number of distinct fingerprints inserted by all processes.
func (v *Visited) Count() uint64 { return atomic.LoadUint64(&v.slots[0]) }

// Insert returns true when the key was not present.
func (v *Visited) Insert(key [16]byte) bool {
	fp := binary.LittleEndian.Uint64(key[:8])
	if fp == 0 {
		fp = 1
	}
	h := binary.LittleEndian.Uint64(key[8:])
	for i := uint64(0); ; i++ {
		s := &v.slots[8+((h+i)&v.mask)]
		cur := atomic.LoadUint64(s)
		if cur == fp {
			return false
		}
		if cur == 0 {
			if atomic.CompareAndSwapUint64(s, 0, fp) {
				atomic.AddUint64(&v.slots[0], 1)
				return true
			}
			if atomic.LoadUint64(s) == fp {
				return false
			}
		}
		if i > v.mask {
			panic("INFRA: visited table full")
		}
	}
}

// Full reports whether the table is over 70% loaded.
func (v *Visited) Full() bool { return v.Count()*10 > (v.mask+1)*7 }
