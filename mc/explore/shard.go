package explore

import (
	"bytes"
	"fmt"
	"os"
	"os/exec"
	"runtime"
	"sync"
)

// RunShards re-executes the check binary n times with
// `<args...> <shard> <n>` and collects each worker's stdout (one JSON
// document). Used by the enumeration engines (HANDLER, SCHED, API).
func RunShards(args []string, n int) ([][]byte, error) {
	return RunShardsPool(args, n, 0)
}

// RunShardsPool runs n shards with at most parallel of them at a time
// (0: all at once). More, smaller shards bound the memory of each worker
// process: executions under the race detector do not give their memory back.
func RunShardsPool(args []string, n, parallel int) ([][]byte, error) {
	if n <= 0 {
		n = runtime.NumCPU()
	}
	if parallel <= 0 || parallel > n {
		parallel = n
	}
	sem := make(chan struct{}, parallel)
	self, err := os.Executable()
	if err != nil {
		return nil, err
	}
	out := make([][]byte, n)
	errs := make([]error, n)
	var wg sync.WaitGroup
	for i := 0; i < n; i++ {
		wg.Add(1)
		go func(i int) {
			defer wg.Done()
			sem <- struct{}{}
			defer func() { <-sem }()
			a := append(append([]string{}, args...), fmt.Sprint(i), fmt.Sprint(n))
			cmd := exec.Command(self, a...)
			cmd.Env = append(os.Environ(), "GOMAXPROCS=1", "GOGC=400")
			var buf bytes.Buffer
			cmd.Stdout = &buf
			cmd.Stderr = os.Stderr
			if err := cmd.Run(); err != nil {
				errs[i] = fmt.Errorf("shard %d: %w", i, err)
			}
			out[i] = buf.Bytes()
		}(i)
	}
	wg.Wait()
	for _, e := range errs {
		if e != nil {
			return out, e
		}
	}
	return out, nil
}
