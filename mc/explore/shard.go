package explore

import (
	"bytes"
	"fmt"
	"os"
	"os/exec"
	"runtime"
	"sync"
)

// RunShards re-executes the check binary n times with
// `<args...> <shard> <n>` and collects each worker's stdout (one JSON
// document). Used by the enumeration engines (HANDLER, SCHED, API).
func RunShards(args []string, n int) ([][]byte, error) {
	if n <= 0 {
		n = runtime.NumCPU()
	}
	self, err := os.Executable()
	if err != nil {
		return nil, err
	}
	out := make([][]byte, n)
	errs := make([]error, n)
	var wg sync.WaitGroup
	for i := 0; i < n; i++ {
		wg.Add(1)
		go func(i int) {
			defer wg.Done()
			a := append(append([]string{}, args...), fmt.Sprint(i), fmt.Sprint(n))
			cmd := exec.Command(self, a...)
			cmd.Env = append(os.Environ(), "GOMAXPROCS=1", "GOGC=400")
			var buf bytes.Buffer
			cmd.Stdout = &buf
			cmd.Stderr = os.Stderr
			if err := cmd.Run(); err != nil {
				errs[i] = fmt.Errorf("shard %d: %w", i, err)
			}
			out[i] = buf.Bytes()
		}(i)
	}
	wg.Wait()
	for _, e := range errs {
		if e != nil {
			return out, e
		}
	}
	return out, nil
}
