package explore

import (
	"bufio"
	"encoding/json"
	"fmt"
	"os"
	"os/exec"
	"path/filepath"
	"runtime"
	"strings"
	"sync"
	"time"

	"verif/mc/common"
	"verif/mc/sim"
)

// Options for one suite run.
type Options struct {
	Workers   int
	Deadline  time.Time
	LogSlots  uint
	StopFirst bool     // stop at the first unlisted violation
	Props     []string // see DFS.Props
}

type workItem struct {
	Path []sim.Event `json:"path"`
	// NewTail: see DFS.NewTail (items handed back by a worker)
	NewTail bool `json:"new_tail,omitempty"`
}

type workResult struct {
	Stats  Stats    `json:"stats"`
	Founds []*Found `json:"founds"`
	Err    string   `json:"err,omitempty"`
	// More: the part of the item's subtree that the worker did not finish
	// within its time slice, as new items
	More []workItem `json:"more,omitempty"`
}

// workSlice is the time after which a worker hands the rest of a subtree back
// to the pool. Deviation-bounded searches are very skewed (most of the work
// sits under the default path), so static frontier items alone leave most
// workers idle.
const workSlice = 2 * time.Second

// Result of a suite run.
type Result struct {
	Suite         string
	Stats         Stats
	Founds        []*Found
	Distinct      uint64 // distinct state fingerprints (global, exact up to 64-bit collisions)
	Exhaustive    bool
	Frontier      int
	FrontierDepth int
	Resplit       int // work items handed back by workers (dynamic load balancing)
	Wall          float64
}

func scratch() string {
	if st, err := os.Stat("/dev/shm"); err == nil && st.IsDir() {
		return "/dev/shm"
	}
	return os.TempDir()
}

// RunSuite explores a suite with a pool of worker processes sharing one
// visited table.
func RunSuite(s *Suite, o Options) (*Result, error) {
	t0 := time.Now()
	if o.Workers <= 0 {
		o.Workers = runtime.NumCPU()
	}
	if o.LogSlots == 0 {
		o.LogSlots = 25
	}
	dir, err := os.MkdirTemp(scratch(), "verif-visited.")
	if err != nil {
		return nil, err
	}
	defer os.RemoveAll(dir)
	vpath := filepath.Join(dir, "visited")
	v, err := OpenVisited(vpath, o.LogSlots, true)
	if err != nil {
		return nil, err
	}
	defer v.Close()
	res := &Result{Suite: s.Name}

	// Frontier: deepen until there is enough work to share.
	var items []workItem
	for depth := 1; ; depth++ {
		v.Close()
		v, err = OpenVisited(vpath, o.LogSlots, true)
		if err != nil {
			return nil, err
		}
		items = items[:0]
		seen := map[[16]byte]bool{}
		var founds []*Found
		d := &DFS{S: s, V: v, Deadline: o.Deadline, MaxDepth: depth, Props: o.Props}
		d.Frontier = func(p []sim.Event, k [16]byte) {
			if !seen[k] {
				seen[k] = true
				items = append(items, workItem{Path: append([]sim.Event(nil), p...)})
			}
		}
		d.OnFound = func(f *Found) bool { founds = append(founds, f); return false }
		d.Run(nil)
		res.Stats = d.Stats
		res.Founds = founds
		res.FrontierDepth = depth
		if len(items) == 0 || len(items) >= 6*o.Workers || d.Stats.DeadlineHit || depth >= 8 {
			break
		}
	}
	res.Frontier = len(items)
	if len(items) > 0 && !res.Stats.DeadlineHit {
		if err := runWorkers(s, o, vpath, items, res); err != nil {
			return nil, err
		}
	}
	res.Distinct = v.Count()
	res.Exhaustive = !res.Stats.DeadlineHit
	res.Wall = time.Since(t0).Seconds()
	return res, nil
}

func runWorkers(s *Suite, o Options, vpath string, items []workItem, res *Result) error {
	self, err := os.Executable()
	if err != nil {
		return err
	}
	var mu sync.Mutex
	cond := sync.NewCond(&mu)
	next := 0
	busy := 0
	stop := false
	var firstErr error
	var wg sync.WaitGroup
	for w := 0; w < o.Workers; w++ {
		wg.Add(1)
		go func(w int) {
			defer wg.Done()
			cmd := exec.Command(self, "worker", s.Name, vpath, fmt.Sprint(o.LogSlots), fmt.Sprint(o.Deadline.UnixNano()))
			cmd.Env = append(os.Environ(), "GOMAXPROCS=1", "GOGC=400", "VERIF_PROPS="+strings.Join(o.Props, ","))
			cmd.Stderr = os.Stderr
			in, _ := cmd.StdinPipe()
			out, _ := cmd.StdoutPipe()
			if err := cmd.Start(); err != nil {
				mu.Lock()
				firstErr = err
				mu.Unlock()
				return
			}
			rd := bufio.NewReaderSize(out, 1<<20)
			enc := json.NewEncoder(in)
			fail := func(err error, halt bool) {
				mu.Lock()
				firstErr = err
				if halt {
					stop = true
				}
				busy--
				cond.Broadcast()
				mu.Unlock()
			}
			for {
				mu.Lock()
				// wait for work: other workers may still hand parts of their items back
				for next >= len(items) && busy > 0 && !stop {
					cond.Wait()
				}
				if next >= len(items) || stop {
					mu.Unlock()
					break
				}
				it := items[next]
				next++
				busy++
				mu.Unlock()
				if err := enc.Encode(it); err != nil {
					fail(fmt.Errorf("worker %d: %w", w, err), false)
					break
				}
				line, err := rd.ReadBytes('\n')
				if err != nil {
					fail(fmt.Errorf("worker %d died: %w", w, err), true)
					break
				}
				var r workResult
				if err := json.Unmarshal(line, &r); err != nil {
					fail(fmt.Errorf("worker %d: bad result: %w", w, err), false)
					break
				}
				mu.Lock()
				if r.Err != "" {
					firstErr = fmt.Errorf("worker %d: %s", w, r.Err)
					stop = true
				}
				res.Stats.Merge(&r.Stats)
				res.Founds = append(res.Founds, r.Founds...)
				items = append(items, r.More...)
				res.Resplit += len(r.More)
				if len(r.Founds) > 0 && o.StopFirst {
					stop = true
				}
				if r.Stats.DeadlineHit {
					stop = true
				}
				busy--
				cond.Broadcast()
				mu.Unlock()
			}
			mu.Lock()
			cond.Broadcast()
			mu.Unlock()
			in.Close()
			cmd.Wait()
		}(w)
	}
	wg.Wait()
	if next < len(items) && firstErr == nil && !o.StopFirst {
		res.Stats.DeadlineHit = true
	}
	if next < len(items) && o.StopFirst && len(res.Founds) == 0 {
		res.Stats.DeadlineHit = true
	}
	return firstErr
}

// WorkerMain is the body of a worker process.
func WorkerMain(args []string, lookup func(name string) *Suite, classify func(*Found) bool) {
	name, vpath := args[0], args[1]
	var logSlots uint
	var deadline int64
	fmt.Sscan(args[2], &logSlots)
	fmt.Sscan(args[3], &deadline)
	s := lookup(name)
	if s == nil {
		fmt.Fprintln(os.Stderr, "INFRA: worker: unknown suite", name)
		os.Exit(2)
	}
	v, err := OpenVisited(vpath, logSlots, false)
	if err != nil {
		fmt.Fprintln(os.Stderr, "INFRA: worker:", err)
		os.Exit(2)
	}
	rd := bufio.NewReaderSize(os.Stdin, 1<<20)
	out := bufio.NewWriter(os.Stdout)
	for {
		line, err := rd.ReadBytes('\n')
		if err != nil {
			return
		}
		var it workItem
		if err := json.Unmarshal(line, &it); err != nil {
			fmt.Fprintln(os.Stderr, "INFRA: worker: bad item:", err)
			os.Exit(2)
		}
		var r workResult
		func() {
			defer func() {
				if p := recover(); p != nil {
					r.Err = fmt.Sprint(p)
				}
			}()
			d := &DFS{S: s, V: v, Deadline: time.Unix(0, deadline), Slice: workSlice, NewTail: it.NewTail}
			if ps := os.Getenv("VERIF_PROPS"); ps != "" {
				d.Props = strings.Split(ps, ",")
			}
			d.OnFound = func(f *Found) bool {
				r.Founds = append(r.Founds, f)
				// known findings do not stop the search
				return classify != nil && classify(f)
			}
			d.Run(it.Path)
			r.Stats = d.Stats
			for _, p := range d.Exported {
				r.More = append(r.More, workItem{Path: p, NewTail: true})
			}
		}()
		b, _ := json.Marshal(&r)
		out.Write(b)
		out.WriteByte('\n')
		out.Flush()
		if r.Err != "" {
			return
		}
	}
}

var _ = common.Root
