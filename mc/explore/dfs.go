package explore

import (
	"bytes"
	"encoding/json"
	"fmt"
	"os"
	"strings"
	"time"

	"verif/mc/common"
	"verif/mc/monitor"
	"verif/mc/sim"
)

// Suite is one exploration: a cluster configuration, a seed prefix, budgets
// and the monitors to evaluate in every state.
type Suite struct {
	Name     string
	Cfg      sim.Config
	Budget   sim.Budget
	Seed     []sim.Event // scripted prefix executed before exploration starts
	Monitors func() []monitor.Monitor
	// Filter, if set, restricts the enabled events (alphabet restriction).
	Filter func(c *sim.Cluster, ev []sim.Event) []sim.Event
	// Leaf, if set, is evaluated on every state without successors or every
	// state (All) - e.g. the liveness continuation.
	Properties []string // property ids whose violations this suite reports
	// Classify, if set, may refine a violation's signature with root-cause
	// discriminators read from the violating state (DESIGN 2.7).
	Classify func(c *sim.Cluster, v *common.Violation)
	// Leaf, if set, is evaluated on every state without successors (it may
	// consume the execution): the fault-free continuation of C15. With
	// LeafAll it is evaluated on every distinct state (one extra replay each).
	Leaf    func(c *sim.Cluster) *common.Violation
	LeafAll bool
	// Boot, if set, replaces the default cluster construction (HANDLER suites).
	Boot func(b sim.Budget) *sim.Cluster
}

// Stats are the counters a DFS produces (evidence raw material).
type Stats struct {
	States      uint64            `json:"states"`      // new states claimed by this worker
	Transitions uint64            `json:"transitions"` // events executed for the first time
	Replayed    uint64            `json:"replayed"`    // events re-executed to restore a state
	Executions  uint64            `json:"executions"`  // boots
	Revisits    uint64            `json:"revisits"`
	Leaves      uint64            `json:"leaves"`
	MaxDepth    int               `json:"max_depth"`
	EventKinds  map[string]uint64 `json:"event_kinds"`
	Counters    map[string]uint64 `json:"counters"`
	DeadlineHit bool              `json:"deadline_hit"`
	Samples     [][]string        `json:"samples,omitempty"`
}

func (s *Stats) Merge(o *Stats) {
	s.States += o.States
	s.Transitions += o.Transitions
	s.Replayed += o.Replayed
	s.Executions += o.Executions
	s.Revisits += o.Revisits
	s.Leaves += o.Leaves
	if o.MaxDepth > s.MaxDepth {
		s.MaxDepth = o.MaxDepth
	}
	if s.EventKinds == nil {
		s.EventKinds = map[string]uint64{}
	}
	for k, v := range o.EventKinds {
		s.EventKinds[k] += v
	}
	if s.Counters == nil {
		s.Counters = map[string]uint64{}
	}
	for k, v := range o.Counters {
		s.Counters[k] += v
	}
	s.DeadlineHit = s.DeadlineHit || o.DeadlineHit
	if len(s.Samples) < 4 {
		s.Samples = append(s.Samples, o.Samples...)
		if len(s.Samples) > 4 {
			s.Samples = s.Samples[:4]
		}
	}
}

// Found is a violation together with the event path that reaches it.
type Found struct {
	V      *common.Violation
	Events []sim.Event
	Leaf   bool // reported by the suite's Leaf oracle (continuation) at the end of the path
}

type frame struct {
	events []sim.Event
	idx    int
}

// Exec is one execution of the real code: a booted cluster plus attached
// monitors.
type Exec struct {
	C    *sim.Cluster
	Mons []monitor.Monitor
	All  []*common.Violation
	S    *Suite
	mem  bytes.Buffer
	dir  string // FileStore: directory of this execution
}

// ScratchDir returns a fresh directory for one execution of a suite that runs
// on the real file-backed storages (Cfg.FileStore).
var ScratchDir func() string

func NewExec(s *Suite) (*Exec, *common.Violation) {
	x := &Exec{S: s}
	if s.Boot != nil {
		x.C = s.Boot(s.Budget)
	} else if s.Cfg.FileStore {
		cfg := s.Cfg
		cfg.Dir = ScratchDir()
		x.dir = cfg.Dir
		x.C = sim.New(cfg, s.Budget)
	} else {
		x.C = sim.New(s.Cfg, s.Budget)
	}
	if s.Monitors != nil {
		x.Mons = s.Monitors()
	}
	for _, m := range x.Mons {
		m.Attach(x.C)
	}
	if v := x.check(); v != nil {
		return x, v
	}
	// The seed is applied completely: it is a scenario that is valid on a correct
	// library; on a broken one every violation met on the way is kept (x.All)
	// and the first one returned, so that a check can still reach the
	// violation of its own property further down the seed.
	var seedAll []*common.Violation
	for _, e := range s.Seed {
		if v, err := x.Apply(e); err != nil {
			if len(seedAll) > 0 {
				// the broken library left the seed's script: report what was seen
				x.All = seedAll
				return x, seedAll[0]
			}
			panic(fmt.Sprintf("INFRA: suite %s: seed event %v: %v", s.Name, e, err))
		} else if v != nil {
			for _, w := range x.All {
				dup := false
				for _, o := range seedAll {
					dup = dup || (o.Property == w.Property && o.Signature == w.Signature)
				}
				if !dup {
					seedAll = append(seedAll, w)
				}
			}
		}
	}
	// budgets count from the end of the seed
	x.C.B = s.Budget
	if len(seedAll) > 0 {
		x.All = seedAll
		return x, seedAll[0]
	}
	return x, nil
}

// check evaluates every monitor; the first violation is returned, all of them
// are kept in x.All (one transition can break several properties at once).
func (x *Exec) check() *common.Violation {
	x.All = x.All[:0]
	if len(x.C.Problems) > 0 {
		p := x.C.Problems[0]
		x.C.Problems = nil
		x.All = append(x.All, &common.Violation{Property: "C18", Signature: "panic-or-livelock", Detail: p})
	}
	for _, m := range x.Mons {
		if v := m.Step(x.C); v != nil {
			x.All = append(x.All, v)
		}
	}
	for _, n := range x.C.Nodes {
		if n.ConstructErr != "" {
			x.All = append(x.All, &common.Violation{Property: "C14", Signature: "restart-failed:" + strings.SplitN(n.ConstructErr, ":", 2)[0],
				Detail: fmt.Sprintf("creating n%d over its own storage failed: %s", n.Idx, n.ConstructErr)})
		}
	}
	if len(x.All) > 0 {
		if x.S != nil && x.S.Classify != nil {
			for _, v := range x.All {
				x.S.Classify(x.C, v)
			}
		}
		return x.All[0]
	}
	return nil
}

func (x *Exec) Apply(e sim.Event) (*common.Violation, error) {
	if err := x.C.Apply(e); err != nil {
		return nil, err
	}
	return x.check(), nil
}

func (x *Exec) Key() [16]byte {
	x.mem.Reset()
	for _, m := range x.Mons {
		m.Mem(&x.mem)
	}
	return x.C.Key(x.mem.Bytes())
}

func (x *Exec) Close() {
	x.C.Teardown()
	if x.dir != "" {
		x.C.RemoveIntercept()
		os.RemoveAll(x.dir)
	}
}

// DFS explores everything reachable from prefix (events applied after the
// suite's seed) within the suite's budgets.
type DFS struct {
	S        *Suite
	V        *Visited
	Deadline time.Time
	Stats    Stats
	OnFound  func(f *Found) (stop bool)
	// MaxDepth (>0) stops expansion at that depth and hands the states found
	// there to Frontier instead of inserting them (used by the master).
	MaxDepth int
	Frontier func(path []sim.Event, key [16]byte)
	// Props, if non-empty, lists the properties whose violations end a path;
	// violations of other properties are reported but exploration goes on
	// beyond them (so that a later violation of the checked property is still
	// reachable).
	Props []string
	// Slice (>0): after this much time the search hands the unexplored rest
	// of its subtree back (Exported: one path per untried alternative of
	// every frame of the stack) instead of finishing it, so that idle workers
	// can share it. Nothing is lost: every exported path is executed later.
	Slice    time.Duration
	Exported [][]sim.Event
	// NewTail: the last event of the prefix has not been executed by anybody
	// yet (an exported alternative): it is a transition of this run, and a
	// violation it causes is reported here.
	NewTail bool
	stop    bool
	// violations met inside the seed are reported by the first boot only
	seedReported bool
}

// prunes reports whether violations end a path: those of the checked
// properties (all, if none is named) and panics do; the search goes on beyond
// violations of other properties.
func (d *DFS) prunes(vs []*common.Violation) bool {
	if len(d.Props) == 0 {
		return len(vs) > 0
	}
	for _, w := range vs {
		for _, pr := range d.Props {
			if w.Property == pr || w.Property == "C18" {
				return true
			}
		}
	}
	return false
}

func (d *DFS) count(e sim.Event) {
	if d.Stats.EventKinds == nil {
		d.Stats.EventKinds = map[string]uint64{}
	}
	d.Stats.EventKinds[e.K]++
}

func (d *DFS) Run(prefix []sim.Event) {
	var stack []*frame
	path := func() []sim.Event {
		p := append([]sim.Event(nil), prefix...)
		for _, f := range stack {
			p = append(p, f.events[f.idx])
		}
		return p
	}
	var x *Exec
	boot := func() bool {
		d.Stats.Executions++
		var v *common.Violation
		x, v = NewExec(d.S)
		if v != nil {
			// violations inside the seed: reported once; they end the search only
			// if one of them belongs to the checked properties
			prune := len(d.Props) == 0
			for _, w := range x.All {
				if !d.seedReported {
					d.found(w, nil)
				}
				for _, pr := range d.Props {
					if w.Property == pr || w.Property == "C18" {
						prune = true
					}
				}
			}
			d.seedReported = true
			if prune {
				return false
			}
		}
		for _, e := range path() {
			v, err := x.Apply(e)
			d.Stats.Replayed++
			if err != nil {
				panic(fmt.Sprintf("INFRA: nondeterminism: replay of %v failed at %v: %v", path(), e, err))
			}
			if v != nil && d.prunes(x.All) {
				// a violation on an already explored path was reported before
				return false
			}
		}
		return true
	}
	started := time.Now()
	var tail *sim.Event
	if d.NewTail && len(prefix) > 0 {
		tail = &prefix[len(prefix)-1]
		prefix = prefix[:len(prefix)-1]
	}
	if !boot() {
		x.Close()
		return
	}
	d.Stats.Replayed -= uint64(len(prefix)) // the prefix is new work the first time
	fresh := true                           // x is positioned at a state not yet examined
	if tail != nil {
		stack = append(stack, &frame{events: []sim.Event{*tail}, idx: 0})
		fresh = d.step(x, path())
	}
	for !d.stop {
		if fresh {
			depth := len(prefix) + len(stack)
			if depth > d.Stats.MaxDepth {
				d.Stats.MaxDepth = depth
			}
			key := x.Key()
			expand := true
			if d.MaxDepth > 0 && depth >= d.MaxDepth {
				d.Frontier(path(), key)
				expand = false
			} else if !d.V.Insert(key) {
				d.Stats.Revisits++
				expand = false
			} else {
				d.Stats.States++
				if d.Stats.Counters == nil {
					d.Stats.Counters = map[string]uint64{}
				}
				for _, t := range x.C.Tags() {
					d.Stats.Counters[t]++
				}
			}
			if expand {
				evs := x.C.Enabled()
				if d.S.Filter != nil {
					evs = d.S.Filter(x.C, evs)
				}
				if d.S.Leaf != nil && (len(evs) == 0 || d.S.LeafAll) {
					if d.Stats.Counters == nil {
						d.Stats.Counters = map[string]uint64{}
					}
					d.Stats.Counters["continuations"]++
					if v := d.S.Leaf(x.C); v != nil {
						if os.Getenv("VERIF_LEAFDUMP") != "" {
							fmt.Fprintf(os.Stderr, "LEAFDUMP %v\n%s\n", path(), x.C.Dump())
						}
						d.foundLeaf(v, path())
					}
					if len(evs) > 0 {
						// the continuation consumed the execution: restore the state
						x.Close()
						if !boot() {
							fresh = false
							continue
						}
					}
				}
				if len(evs) == 0 {
					d.Stats.Leaves++
					if len(d.Stats.Samples) < 2 {
						var s []string
						for _, e := range path() {
							s = append(s, e.String())
						}
						d.Stats.Samples = append(d.Stats.Samples, s)
					}
				} else {
					stack = append(stack, &frame{events: evs, idx: 0})
					if d.step(x, path()) {
						continue
					}
					// violation or dead end below: fall through to backtrack
				}
			}
		}
		// backtrack
		x.Close()
		x = nil
		for len(stack) > 0 && stack[len(stack)-1].idx+1 >= len(stack[len(stack)-1].events) {
			stack = stack[:len(stack)-1]
		}
		if len(stack) == 0 {
			return
		}
		if !d.Deadline.IsZero() && time.Now().After(d.Deadline) {
			d.Stats.DeadlineHit = true
			return
		}
		if d.Slice > 0 && time.Since(started) > d.Slice {
			base := append([]sim.Event(nil), prefix...)
			for _, f := range stack {
				for j := f.idx + 1; j < len(f.events); j++ {
					d.Exported = append(d.Exported, append(append([]sim.Event(nil), base...), f.events[j]))
				}
				base = append(base, f.events[f.idx])
			}
			return
		}
		stack[len(stack)-1].idx++
		// re-execute up to the parent of the new event
		top := stack[len(stack)-1]
		stack = stack[:len(stack)-1]
		ok := boot()
		stack = append(stack, top)
		if !ok {
			fresh = false
			continue
		}
		fresh = d.step(x, path())
	}
	if x != nil {
		x.Close()
	}
}

// step applies the event selected by the top frame; false if it ended in a
// violation (already reported).
func (d *DFS) step(x *Exec, p []sim.Event) bool {
	e := p[len(p)-1]
	d.Stats.Transitions++
	d.count(e)
	defer func() {
		if r := recover(); r != nil {
			var ps []string
			for _, q := range p {
				ps = append(ps, q.String())
			}
			panic(fmt.Sprintf("%v\n  at path: %s", r, strings.Join(ps, "; ")))
		}
	}()
	v, err := x.Apply(e)
	if err != nil {
		panic(fmt.Sprintf("INFRA: enabled event %v could not be applied: %v", e, err))
	}
	if v != nil {
		prune := len(d.Props) == 0
		for _, w := range x.All {
			d.found(w, p)
			for _, pr := range d.Props {
				if w.Property == pr || w.Property == "C18" {
					prune = true
				}
			}
		}
		return !prune
	}
	return true
}

func (d *DFS) foundLeaf(v *common.Violation, p []sim.Event) {
	if d.OnFound != nil && d.OnFound(&Found{V: v, Events: append([]sim.Event(nil), p...), Leaf: true}) {
		d.stop = true
	}
}

func (d *DFS) found(v *common.Violation, p []sim.Event) {
	if d.OnFound != nil && d.OnFound(&Found{V: v, Events: append([]sim.Event(nil), p...)}) {
		d.stop = true
	}
}

func EventsJSON(ev []sim.Event) json.RawMessage {
	b, _ := json.Marshal(ev)
	return b
}
