// instrument reads the current working tree of the repository and writes an
// overlay (for `go build -overlay`) in which the library runs against the
// verification shims: sync/time/os/math-rand imports are redirected and every
// `go` statement is routed through the scheduler. The repository itself is
// never modified. Rewrites are done on the source text at AST positions and
// keep every statement on its original line.
package main

import (
	"encoding/json"
	"flag"
	"fmt"
	"go/ast"
	"go/parser"
	"go/token"
	"os"
	"path/filepath"
	"sort"
	"strconv"
	"strings"
)

const shimRoot = "github.com/jmsadair/raft/verifshim/"

var importMap = map[string]string{
	"sync":      "vsync",
	"time":      "vtime",
	"os":        "vos",
	"math/rand": "vrand",
}

// Files that keep the real packages: the gRPC transport runs real goroutines
// that must never enter the scheduler; testing.go is test scaffolding.
var keepReal = map[string]bool{"transport.go": true}
var emptied = map[string]bool{"testing.go": true}
var skipDirs = map[string]bool{".git": true, "verifshim": true, "protobuf": true, ".github": true, "assets": true}

type edit struct {
	start, end int
	text       string
}

func main() {
	repo := flag.String("repo", "/repo", "repository root")
	out := flag.String("out", "", "scratch directory for rewritten files")
	shim := flag.String("shim", "/verif/shim", "shim source root")
	ovl := flag.String("overlay", "", "overlay json to write")
	src := flag.String("src", "", "read sources from this copy of the repository instead (mutation runs); the overlay still targets -repo")
	flag.Parse()
	if *out == "" || *ovl == "" {
		fmt.Fprintln(os.Stderr, "usage: instrument -out DIR -overlay FILE")
		os.Exit(2)
	}
	replace := map[string]string{}
	must(os.MkdirAll(*out, 0o755))
	target := *repo
	if *src != "" {
		*repo = *src
	}

	err := filepath.Walk(*repo, func(path string, info os.FileInfo, err error) error {
		if err != nil {
			return err
		}
		if info.IsDir() {
			if skipDirs[info.Name()] && path != *repo {
				return filepath.SkipDir
			}
			return nil
		}
		if !strings.HasSuffix(path, ".go") || strings.HasSuffix(path, "_test.go") {
			return nil
		}
		rel, _ := filepath.Rel(*repo, path)
		dst := filepath.Join(*out, strings.ReplaceAll(rel, string(filepath.Separator), "__"))
		srcPath := path
		path = filepath.Join(target, rel)
		if filepath.Dir(rel) == "." && emptied[rel] {
			src, err := os.ReadFile(srcPath)
			if err != nil {
				return err
			}
			pkg := "raft"
			if f, err := parser.ParseFile(token.NewFileSet(), srcPath, src, parser.PackageClauseOnly); err == nil {
				pkg = f.Name.Name
			}
			must(os.WriteFile(dst, []byte("package "+pkg+"\n"), 0o644))
			replace[path] = dst
			return nil
		}
		differs := false
		if srcPath != path {
			a, _ := os.ReadFile(srcPath)
			b, err := os.ReadFile(path)
			differs = err != nil || string(a) != string(b)
		}
		if filepath.Dir(rel) == "." && keepReal[rel] {
			if differs {
				replace[path] = srcPath
			}
			return nil
		}
		changed, text, err := rewrite(srcPath)
		if err != nil {
			return fmt.Errorf("%s: %w", rel, err)
		}
		if changed {
			must(os.WriteFile(dst, text, 0o644))
			replace[path] = dst
		} else if differs {
			replace[path] = srcPath
		}
		return nil
	})
	must(err)

	// Mount the shim packages into the raft module.
	pkgs, err := os.ReadDir(*shim)
	must(err)
	for _, p := range pkgs {
		if !p.IsDir() {
			continue
		}
		files, err := os.ReadDir(filepath.Join(*shim, p.Name()))
		must(err)
		for _, f := range files {
			if !strings.HasSuffix(f.Name(), ".go") {
				continue
			}
			src := filepath.Join(*shim, p.Name(), f.Name())
			if p.Name() == "inpkg" {
				replace[filepath.Join(target, "zz_verif_"+f.Name())] = src
			} else {
				replace[filepath.Join(target, "verifshim", p.Name(), f.Name())] = src
			}
		}
	}
	data, err := json.MarshalIndent(map[string]any{"Replace": replace}, "", " ")
	must(err)
	must(os.WriteFile(*ovl, data, 0o644))
}

func must(err error) {
	if err != nil {
		fmt.Fprintln(os.Stderr, "INFRA: instrument:", err)
		os.Exit(2)
	}
}

func rewrite(path string) (bool, []byte, error) {
	src, err := os.ReadFile(path)
	if err != nil {
		return false, nil, err
	}
	fset := token.NewFileSet()
	f, err := parser.ParseFile(fset, path, src, parser.ParseComments)
	if err != nil {
		return false, nil, err
	}
	off := func(p token.Pos) int { return fset.Position(p).Offset }
	var edits []edit

	// go statements (innermost first is guaranteed by rejecting nesting).
	var gos []*ast.GoStmt
	ast.Inspect(f, func(n ast.Node) bool {
		if g, ok := n.(*ast.GoStmt); ok {
			gos = append(gos, g)
		}
		return true
	})
	for i, g := range gos {
		for j, h := range gos {
			if i != j && h.Pos() > g.Pos() && h.End() <= g.End() {
				return false, nil, fmt.Errorf("nested go statement at %s is not supported", fset.Position(h.Pos()))
			}
		}
		call := g.Call
		fun := string(src[off(call.Fun.Pos()):off(call.Fun.End())])
		var b strings.Builder
		b.WriteString("{ _vf := " + fun + "; ")
		var names []string
		for k, a := range call.Args {
			nm := "_va" + strconv.Itoa(k)
			names = append(names, nm)
			b.WriteString(nm + " := " + string(src[off(a.Pos()):off(a.End())]) + "; ")
		}
		callArgs := strings.Join(names, ", ")
		if call.Ellipsis.IsValid() {
			callArgs += "..."
		}
		label := fun
		if _, ok := call.Fun.(*ast.FuncLit); ok {
			label = "func@" + strconv.Itoa(fset.Position(g.Pos()).Line)
		}
		if idx := strings.LastIndex(label, "."); idx >= 0 && !strings.ContainsAny(label, "(){} \n") {
			label = label[idx+1:]
		}
		label = strings.Join(strings.Fields(label), " ")
		b.WriteString("vsched.Go(" + strconv.Quote(label) + ", func() { _vf(" + callArgs + ") }")
		for _, nm := range names {
			b.WriteString(", " + nm)
		}
		b.WriteString(") }")
		edits = append(edits, edit{off(g.Pos()), off(g.End()), b.String()})
	}

	needSched := len(gos) > 0
	haveSched := false
	var firstSpec *ast.ImportSpec
	for _, imp := range f.Imports {
		if firstSpec == nil {
			firstSpec = imp
		}
		p, _ := strconv.Unquote(imp.Path.Value)
		if p == shimRoot+"vsched" {
			haveSched = true
		}
		to, ok := importMap[p]
		if !ok {
			continue
		}
		name := filepath.Base(p)
		if imp.Name != nil {
			name = imp.Name.Name
		}
		edits = append(edits, edit{off(imp.Pos()), off(imp.End()), name + " " + strconv.Quote(shimRoot+to)})
	}
	if needSched && !haveSched {
		add := "vsched " + strconv.Quote(shimRoot+"vsched")
		if firstSpec != nil {
			// append to the first spec, on the same line
			merged := false
			for i := range edits {
				if edits[i].start == off(firstSpec.Pos()) {
					edits[i].text += "; " + add
					merged = true
				}
			}
			if !merged {
				orig := string(src[off(firstSpec.Pos()):off(firstSpec.End())])
				edits = append(edits, edit{off(firstSpec.Pos()), off(firstSpec.End()), orig + "; " + add})
			}
			// a single-spec import without parentheses cannot take a second spec
			for _, d := range f.Decls {
				if gd, ok := d.(*ast.GenDecl); ok && gd.Tok == token.IMPORT && !gd.Lparen.IsValid() && len(gd.Specs) == 1 && gd.Specs[0] == firstSpec {
					for i := range edits {
						if edits[i].start == off(firstSpec.Pos()) {
							edits[i].text = strings.Replace(edits[i].text, "; "+add, "", 1)
						}
					}
					edits = append(edits, edit{off(gd.End()), off(gd.End()), "; import " + add})
				}
			}
		} else {
			edits = append(edits, edit{off(f.Name.End()), off(f.Name.End()), "; import " + add})
		}
	}
	if len(edits) == 0 {
		return false, nil, nil
	}
	sort.Slice(edits, func(i, j int) bool { return edits[i].start > edits[j].start })
	out := src
	for _, e := range edits {
		out = append(append(append([]byte{}, out[:e.start]...), e.text...), out[e.end:]...)
	}
	// Make sure it still parses.
	if _, err := parser.ParseFile(token.NewFileSet(), path, out, 0); err != nil {
		return false, nil, fmt.Errorf("rewritten file does not parse: %w", err)
	}
	return true, out, nil
}
