package main

// C14, CRASH over CLUSTER: scripted cluster schedules on the library's real
// file-backed storages; for every mutating file-system call issued by any node
// during a schedule the node is killed immediately before that call (hence
// also immediately after the previous one; for writes also with a torn
// prefix), restarted over the same directory, and the cluster then runs a
// fault-free period.

import (
	"encoding/json"
	"fmt"
	"os"
	"path/filepath"
	"strings"
	"time"

	"github.com/jmsadair/raft"
	"verif/mc/common"
	"verif/mc/explore"
	"verif/mc/monitor"
	"verif/mc/sim"
)

type c14Scenario struct {
	Name   string
	Cfg    sim.Config
	Events []sim.Event
}

var c14Scenarios []c14Scenario

func init() {
	p := sim.MustParse
	with := func(a []sim.Event, s ...string) []sim.Event { return append(append([]sim.Event{}, a...), p(s...)...) }
	lead := seedLeader3
	c14Scenarios = []c14Scenario{
		{"election+replication", sim.Config{Voters: 3}, with(lead, "write n0", "flush", "write n0", "flush", "beat n0", "flush")},
		{"conflict+truncate", sim.Config{Voters: 3}, with(lead, "isolate n0", "write n0", "write n0", "timeout n1", "rt 1>2:RV#0 a=2", "rt 1>2:RV#1", "flush",
			"write n1", "flush", "heal", "flush", "beat n1", "flush")},
		{"conflict+truncate+snapshots", sim.Config{Voters: 3, SnapAt: 2}, with(lead, "isolate n0", "write n0", "write n0", "timeout n1", "rt 1>2:RV#0 a=2", "rt 1>2:RV#1", "flush",
			"write n1", "flush", "write n1", "flush", "heal", "flush", "beat n1", "flush", "beat n1", "flush")},
		{"snapshot-before-later-term-entry", sim.Config{Voters: 3, SnapAt: 2}, with(lead, "write n0", "rt 0>1:AE#2", "rt 0>2:AE#2", "rt 0>1:AE#3", "isolate n0", "timeout n1", "rt 1>2:RV#0 a=2", "rt 1>2:RV#1", "flush",
			"write n1", "flush", "heal", "flush", "beat n1", "flush")},
		{"same-term-step-down-after-vote", sim.Config{Voters: 3}, append(append([]sim.Event{}, seedSplit...), p("rt 0>2:RV#2", "rt 0>2:RV#3", "rt 1>2:RV#2 a=2", "timeout n2", "rt 0>2:AE#0", "heal", "flush", "beat n0", "flush")...)},
		{"vote-then-candidate-dies", sim.Config{Voters: 3}, p("timeout n0", "rt 0>1:RV#0 a=2", "rt 0>1:RV#1", "crash n0", "timeout n2", "rt 2>1:RV#0 a=2", "rt 2>1:RV#1", "timeout n2", "rt 2>1:RV#2 a=2", "flush", "restart n0", "beat n2", "flush")},
		{"local-snapshot", sim.Config{Voters: 3, SnapAt: 2}, with(lead, "write n0", "flush", "write n0", "flush", "write n0", "flush", "beat n0", "flush")},
		{"install-on-lagging-follower", sim.Config{Voters: 3, SnapAt: 2}, with(lead, "crash n2", "write n0", "flush", "write n0", "flush", "write n0", "flush", "restart n2", "beat n0", "flush", "beat n0", "flush", "beat n0", "flush")},
		{"install-33KiB", sim.Config{Voters: 3, SnapAt: 2, SnapPad: 33 * 1024}, with(lead, "crash n2", "write n0", "flush", "write n0", "flush", "restart n2", "beat n0", "flush", "beat n0", "flush", "beat n0", "flush", "beat n0", "flush")},
		{"install-over-stale-suffix", sim.Config{Voters: 3, SnapAt: 2}, with(lead, "isolate n0", "write n0", "write n0", "crash n0", "heal", "timeout n1", "rt 1>2:RV#0 a=2", "rt 1>2:RV#1", "flush",
			"write n1", "flush", "write n1", "flush", "restart n0", "beat n1", "flush", "beat n1", "flush", "beat n1", "flush")},
		{"compact-then-conflict", sim.Config{Voters: 3, SnapAt: 2}, with(lead, "write n0", "write n0", "write n0", "rt 0>1:AE#2", "rt 0>1:AE#3", "isolate n0", "timeout n1", "rt 1>2:RV#0 a=2", "rt 1>2:RV#1", "flush",
			"write n1", "flush", "heal", "flush", "beat n1", "flush", "crash n0", "restart n0", "beat n1", "flush")},
		{"membership-change", sim.Config{Voters: 3, Spares: 1}, with(lead, "add n0 a=3 nonvoter", "flush", "beat n0", "flush", "add n0 a=3 voter", "flush", "beat n0", "flush", "write n0", "flush")},
	}
}

type c14Point struct {
	Scenario int    `json:"scenario"`
	Node     int    `json:"node"`
	Call     int    `json:"call"`
	Partial  int    `json:"partial"`
	Call2    int    `json:"call2,omitempty"` // second crash of the same node (cumulative call number)
	What     string `json:"what,omitempty"`
}

var c14Seq int

func c14Dir() string {
	c14Seq++
	return filepath.Join(scratchDir(), fmt.Sprintf("verif-c14.%d.%d", os.Getpid(), c14Seq))
}

func c14Monitors() []monitor.Monitor {
	a := &monitor.Apply{}
	cm := &monitor.Commit{}
	return []monitor.Monitor{a, cm, &monitor.Snapshots{A: a, C: cm}, &monitor.Leader{}, &monitor.LogMatch{}, &monitor.TermVote{}}
}

type c14Out struct {
	Sig      string
	Detail   string
	Crashed  string
	Calls    []int
	Boot     []int
	Trace    []string
	Restarts int
	Recovery int    // mutating calls of the restart after the first crash
	Crashed2 string // where the second crash hit, if one was planned and reached
}

// runC14 executes one scenario with an optional crash plan.
func runC14(sc *c14Scenario, plan *sim.CrashPlan, record bool) c14Out {
	var out c14Out
	dir := c14Dir()
	defer os.RemoveAll(dir)
	cfg := sc.Cfg
	cfg.FileStore, cfg.Dir, cfg.Plan, cfg.RecordFs = true, dir, plan, record
	c := sim.New(cfg, sim.Budget{Timeouts: 99, Elapses: 99, Beats: 99, Writes: 99, Members: 99, Cuts: 99, Crashes: 99, Restarts: 99, Reorders: -1, Splits: 99, Deviations: -1})
	defer func() {
		c.Teardown()
		c.RemoveIntercept()
	}()
	out.Boot = append([]int(nil), c.FsCalls...)
	mons := c14Monitors()
	for _, m := range mons {
		m.Attach(c)
	}
	check := func(when string) bool {
		if len(c.Problems) > 0 {
			p := c.Problems[0]
			out.Sig, out.Detail = "panic:"+strings.SplitN(strings.SplitN(p, "\n", 2)[0], ": ", 2)[len(strings.SplitN(strings.SplitN(p, "\n", 2)[0], ": ", 2))-1], when+": "+p
			return false
		}
		for _, n := range c.Nodes {
			if n.ConstructErr != "" {
				out.Sig, out.Detail = "restart-failed:"+strings.SplitN(n.ConstructErr, ":", 2)[0], fmt.Sprintf("%s: creating n%d over its directory failed: %s", when, n.Idx, n.ConstructErr)
				return false
			}
			if n.Fatal != "" {
				out.Sig, out.Detail = "fatal-after-restart", fmt.Sprintf("%s: n%d: the library terminated the process (%s)", when, n.Idx, n.Fatal)
				return false
			}
		}
		for _, m := range mons {
			if v := m.Step(c); v != nil {
				out.Sig, out.Detail = "safety:"+v.Property+"/"+v.Signature, when+": "+v.Detail
				return false
			}
		}
		return true
	}
	if !check("boot") {
		return out
	}
	restarted := false
	for _, e := range sc.Events {
		if err := c.Apply(e); err != nil {
			// the scripted schedule no longer applies after the crash
			if plan == nil {
				out.Sig, out.Detail = "infra-script", fmt.Sprintf("event %s could not be applied: %v", e, err)
				return out
			}
			break
		}
		if !check("event " + e.String()) {
			return out
		}
		if plan != nil && c.CrashedAt != "" && !restarted {
			// the planned crash happened during this event: restart the node now
			out.Crashed = c.CrashedAt
			if c.Nodes[plan.Node].Alive {
				// the crash was requested from controller context or the node
				// survived: make sure it is down
				c.Apply(sim.Event{K: "crash", N: plan.Node})
			}
			pre := append([]raft.LogEntry(nil), c.Nodes[plan.Node].Log.Entries...)
			if err := c.Apply(sim.Event{K: "restart", N: plan.Node}); err != nil {
				out.Sig, out.Detail = "infra", err.Error()
				return out
			}
			// what the node recovered from its directory: a well-formed log that
			// still holds everything the node held before it was killed (the
			// operation in flight excepted)
			if rn := c.Nodes[plan.Node]; rn.ConstructErr == "" && len(rn.Log.Entries) > 0 {
				rec := rn.Log.Entries
				for i := range rec {
					if rec[i].Index != rec[0].Index+uint64(i) {
						out.Sig = "recovered-log-malformed"
						out.Detail = fmt.Sprintf("after the crash at %s the recovered log of n%d is not a contiguous sequence: position %d holds index %d after first index %d", c.CrashedAt, plan.Node, i, rec[i].Index, rec[0].Index)
						return out
					}
				}
				// an in-flight Truncate or DiscardEntries may legitimately have removed entries
				inLogOp := strings.Contains(c.CrashedAt, "Truncate") || strings.Contains(c.CrashedAt, "tmp-log")
				if !inLogOp && len(pre) > 0 {
					for _, e := range pre[1:] {
						if e.Index <= rec[0].Index {
							continue
						}
						k := e.Index - rec[0].Index
						if k >= uint64(len(rec)) || rec[k].Term != e.Term || string(rec[k].Data) != string(e.Data) {
							out.Sig = "recovered-log-lost-entry"
							out.Detail = fmt.Sprintf("after the crash at %s (not a truncation or discard) n%d no longer holds entry (%d, term %d) it held before", c.CrashedAt, plan.Node, e.Index, e.Term)
							return out
						}
					}
				}
			}
			restarted = true
			out.Restarts++
			out.Recovery = c.FsCalls[plan.Node] - plan.Call
			if plan.Call2 > 0 && c.CrashedAt2 != "" {
				// the node was killed again while (or right after) recovering
				out.Crashed2 = c.CrashedAt2
				if c.Nodes[plan.Node].Alive {
					c.Apply(sim.Event{K: "crash", N: plan.Node})
				}
				c.Nodes[plan.Node].ConstructErr, c.Nodes[plan.Node].Fatal = "", ""
				if err := c.Apply(sim.Event{K: "restart", N: plan.Node}); err != nil {
					out.Sig, out.Detail = "infra", err.Error()
					return out
				}
				out.Restarts++
				if !check("second restart after crashes at " + c.CrashedAt + " and " + c.CrashedAt2) {
					return out
				}
				break
			}
			if !check("restart after crash at " + c.CrashedAt) {
				return out
			}
			break
		}
	}
	out.Calls = append([]int(nil), c.FsCalls...)
	out.Trace = c.FsTrace
	if plan != nil && !restarted {
		// the planned call was never reached in this run (schedule diverged)
		out.Crashed = ""
	}
	// bring back nodes the script left down, then the fault-free period
	for _, n := range c.Nodes {
		if !n.Alive && n.ConstructErr == "" {
			c.Apply(sim.Event{K: "restart", N: n.Idx})
		}
	}
	if !check("restarts before the fault-free period") {
		return out
	}
	if v := monitor.Continuation(150)(c); v != nil {
		out.Sig, out.Detail = "continuation:"+v.Signature, v.Detail
		return out
	}
	check("end of the fault-free period")
	return out
}

type c14Result struct {
	Runs     int            `json:"runs"`
	Crashed  int            `json:"crashed"`
	Outcomes map[string]int `json:"outcomes"`
	Fails    []c14Fail      `json:"fails"`
	Deadline bool           `json:"deadline"`
	Nested   int            `json:"nested"`
}

type c14Fail struct {
	Sig    string   `json:"sig"`
	Detail string   `json:"detail"`
	Point  c14Point `json:"point"`
}

// c14Points enumerates the crash points of the tier from the base runs.
func c14Points(tier string) ([]c14Point, []map[string]any, *c14Fail) {
	var pts []c14Point
	var info []map[string]any
	for si := range c14Scenarios {
		sc := &c14Scenarios[si]
		base := runC14(sc, nil, true)
		if base.Sig != "" {
			return nil, nil, &c14Fail{Sig: "base:" + base.Sig, Detail: "scenario " + sc.Name + " without any crash: " + base.Detail, Point: c14Point{Scenario: si}}
		}
		info = append(info, map[string]any{"scenario": sc.Name, "events": len(sc.Events), "mutating_calls_per_node": base.Calls, "boot_calls_per_node": base.Boot})
		// which calls are writes (for torn-write variants)
		writes := map[[2]int]int{}
		for _, l := range base.Trace {
			var node, k, n int
			var op, file string
			fmt.Sscanf(l, "n%d #%d %s %s n=%d", &node, &k, &op, &file, &n)
			if op == "Write" {
				writes[[2]int{node, k}] = n
			}
		}
		for node, total := range base.Calls {
			for k := base.Boot[node] + 1; k <= total+1; k++ {
				pts = append(pts, c14Point{Scenario: si, Node: node, Call: k, Partial: -1})
				if n, ok := writes[[2]int{node, k}]; ok && n > 1 {
					js := []int{1, n / 2, n - 1}
					if tier == "thorough" {
						js = []int{1, 2, 3, 4, 5, n / 2, n - 2, n - 1}
					}
					seen := map[int]bool{}
					for _, j := range js {
						if j >= 1 && j < n && !seen[j] {
							seen[j] = true
							pts = append(pts, c14Point{Scenario: si, Node: node, Call: k, Partial: j})
						}
					}
				}
			}
		}
	}
	return pts, info, nil
}

func c14Worker() {
	tier := os.Args[2]
	var shard, n int
	var dl int64
	fmt.Sscan(os.Args[3], &dl)
	fmt.Sscan(os.Args[4], &shard)
	fmt.Sscan(os.Args[5], &n)
	defer os.RemoveAll(filepath.Join(scratchDir(), fmt.Sprintf("verif-c14.%d", os.Getpid())))
	res := c14Result{Outcomes: map[string]int{}}
	pts, _, bf := c14Points(tier)
	if bf != nil {
		if shard == 0 {
			res.Fails = append(res.Fails, *bf)
		}
		b, _ := json.Marshal(&res)
		os.Stdout.Write(b)
		return
	}
	seen := map[string]bool{}
	for i, pt := range pts {
		if i%n != shard {
			continue
		}
		if time.Now().UnixNano() > dl {
			res.Deadline = true
			break
		}
		sc := &c14Scenarios[pt.Scenario]
		o := runC14(sc, &sim.CrashPlan{Node: pt.Node, Call: pt.Call, Partial: pt.Partial}, false)
		res.Runs++
		if o.Crashed != "" {
			res.Crashed++
		}
		pt.What = o.Crashed
		if o.Sig != "" {
			if !seen[o.Sig] {
				seen[o.Sig] = true
				res.Fails = append(res.Fails, c14Fail{o.Sig, o.Detail, pt})
			}
			res.Outcomes["fail:"+o.Sig]++
		} else if o.Crashed != "" {
			op := strings.Fields(o.Crashed)
			res.Outcomes["ok:crash-before-"+op[0]+"-"+strings.TrimRight(op[1], "0123456789-")]++
		} else {
			res.Outcomes["ok:call-not-reached"]++
		}
		// second level: the node is killed again at every mutating call of its
		// recovery (the restart after the first crash), then restarted once more
		if o.Sig == "" && o.Crashed != "" && pt.Partial < 0 {
			for k2 := pt.Call + 1; k2 <= pt.Call+o.Recovery; k2++ {
				if time.Now().UnixNano() > dl {
					res.Deadline = true
					break
				}
				o2 := runC14(sc, &sim.CrashPlan{Node: pt.Node, Call: pt.Call, Partial: pt.Partial, Call2: k2}, false)
				res.Runs++
				res.Nested++
				if o2.Crashed2 != "" {
					res.Crashed++
				}
				p2 := pt
				p2.Call2 = k2
				p2.What = o2.Crashed + " then " + o2.Crashed2
				if o2.Sig != "" {
					sig := o2.Sig
					if !seen[sig] {
						seen[sig] = true
						res.Fails = append(res.Fails, c14Fail{sig, o2.Detail, p2})
					}
					res.Outcomes["fail:"+sig]++
				} else if o2.Crashed2 != "" {
					res.Outcomes["ok:second-crash-during-recovery"]++
				} else {
					res.Outcomes["ok:second-call-not-reached"]++
				}
			}
		}
	}
	b, _ := json.Marshal(&res)
	os.Stdout.Write(b)
}

func init() {
	checks["C14"] = func(prop, tier string) int {
		t0 := time.Now()
		rep := common.NewReport(prop)
		secs := 400
		if tier == "thorough" {
			secs = 1200
		}
		defer os.RemoveAll(filepath.Join(scratchDir(), fmt.Sprintf("verif-c14.%d", os.Getpid())))
		pts, info, bf := c14Points(tier)
		if bf != nil {
			rep.Add(&common.Violation{Property: prop, Signature: bf.Sig, Detail: bf.Detail}, nil)
			return rep.Finish()
		}
		outs, err := explore.RunShards([]string{"c14worker", tier, fmt.Sprint(time.Now().Add(time.Duration(secs) * time.Second).UnixNano())}, 0)
		if err != nil {
			fmt.Println("INFRA:", err)
			return 2
		}
		total := c14Result{Outcomes: map[string]int{}}
		best := map[string]c14Fail{}
		for _, o := range outs {
			var r c14Result
			if err := json.Unmarshal(o, &r); err != nil {
				fmt.Println("INFRA: bad shard output:", err)
				return 2
			}
			total.Runs += r.Runs
			total.Nested += r.Nested
			total.Crashed += r.Crashed
			total.Deadline = total.Deadline || r.Deadline
			for k, v := range r.Outcomes {
				total.Outcomes[k] += v
			}
			for _, f := range r.Fails {
				if _, ok := best[f.Sig]; !ok {
					best[f.Sig] = f
				}
			}
		}
		for _, f := range best {
			sc := &c14Scenarios[f.Point.Scenario]
			for i := 0; i < 3; i++ {
				o := runC14(sc, &sim.CrashPlan{Node: f.Point.Node, Call: f.Point.Call, Partial: f.Point.Partial, Call2: f.Point.Call2}, false)
				if o.Sig != f.Sig {
					fmt.Printf("INFRA: crash point %+v failed with %q then %q\n", f.Point, f.Sig, o.Sig)
					return 2
				}
			}
			params, _ := json.Marshal(f.Point)
			rep.Add(&common.Violation{Property: prop, Signature: f.Sig, Detail: fmt.Sprintf("scenario %s, %s: %s", sc.Name, f.Point.What, f.Detail)}, &common.Replay{Engine: "crash-cluster", Suite: sc.Name, Params: params})
		}
		if total.Runs == 0 || total.Crashed < 2 {
			fmt.Println("INFRA: vacuous enumeration: no crash point was exercised")
			return 2
		}
		// explored part: the cluster explorer on the real storages with crashes
		// armed at mutating file-system calls (not only at the scripted schedules
		// above); "the cluster keeps all safety properties": monitor violations of
		// C01, C02, C04, C06, C07, C08 are C14 violations here
		cl := []plan{{"filearm3-d2", 60}, {"filearmsnap3-d2", 120}}
		if tier == "thorough" {
			cl = []plan{{"filearm3-d3", 600}, {"filearmsnap3-d3", 900}, {"filearm2-d4", 300}}
		}
		reported := map[string]bool{}
		cc, cex, code := runClusterPlansAlso(prop, cl, rep, reported, []string{"C01", "C02", "C04", "C06", "C07", "C08"})
		if code != 0 {
			return code
		}
		samples := []any{}
		for _, i := range []int{0, len(pts) / 2, len(pts) - 1} {
			samples = append(samples, map[string]any{"scenario": c14Scenarios[pts[i].Scenario].Name, "node": pts[i].Node, "crash_before_mutating_call": pts[i].Call, "torn_write_bytes": pts[i].Partial})
		}
		ev := &common.Evidence{PropertyID: prop, Tier: tier, Seed: common.Seed(), Level: "fault_enumeration", WallS: time.Since(t0).Seconds(), Violations: len(rep.Violations),
			Coverage: map[string]any{"evaluations": total.Runs, "distinct_nontrivial": total.Crashed,
				"rule":    "for each scripted cluster schedule on the real file-backed storages: every mutating file-system call (mkdir, create, temp file, write, truncate, rename, remove) issued by every node after its boot is a crash point (kill before the call = kill after the previous one; one extra point after the last call; writes additionally with torn prefixes); the node is restarted over the same directory at once (second level: and killed again at every mutating call of that restart, then restarted once more), nodes the script left down are restarted, then 150 fault-free heartbeat intervals follow; oracle: constructors and Start succeed, no fatal exit or panic, safety monitors (C01, C02, C06, C07, C08, C10) hold throughout, one leader, a fresh operation completes and every member reaches the leader's applied sequence; non-trivial = runs in which the planned call was reached and the node was killed there (each crash point is distinct by construction)",
				"samples": samples, "scenarios": info, "crash_points": len(pts), "second_level_runs": total.Nested, "outcomes": total.Outcomes, "exhaustive": !total.Deadline && cex, "explored_part": cc},
			Assumptions: []string{"process-crash fault model (completed calls durable, in-flight write leaves a prefix); one crash per run plus, for every crash point, a second crash of the same node at every mutating call of its recovery; the crashed node is restarted immediately", "fixed scripted schedules (11 scenarios) under canonical goroutine scheduling, plus the explored part (suites filearm*: every event sequence within budgets and deviation bound on the real storages, with a crash armed before any of the next 8-12 mutating file-system calls of a node)"}}
		if err := ev.Write(); err != nil {
			fmt.Println("INFRA:", err)
			return 2
		}
		fmt.Printf("C14 %s: crash-points=%d runs=%d crashed=%d outcomes=%d exhaustive=%t wall=%.1fs\n", tier, len(pts), total.Runs, total.Crashed, len(total.Outcomes), !total.Deadline, time.Since(t0).Seconds())
		return rep.Finish()
	}
	replayers["crash-cluster"] = func(r *common.Replay, path string) int {
		var pt c14Point
		if err := json.Unmarshal(r.Params, &pt); err != nil {
			fmt.Println("INFRA:", err)
			return 2
		}
		defer os.RemoveAll(filepath.Join(scratchDir(), fmt.Sprintf("verif-c14.%d", os.Getpid())))
		o := runC14(&c14Scenarios[pt.Scenario], &sim.CrashPlan{Node: pt.Node, Call: pt.Call, Partial: pt.Partial, Call2: pt.Call2}, false)
		if o.Sig == "" {
			fmt.Println("replay finished without a violation; crashed at:", o.Crashed)
			return 0
		}
		fmt.Printf("VIOLATION property=C14 replay=%s signature=%q detail=%q\n", path, o.Sig, o.Detail)
		return 1
	}
}
