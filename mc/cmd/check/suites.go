package main

import (
	"fmt"

	"verif/mc/explore"
	"verif/mc/monitor"
	"verif/mc/sim"
)

func safetyMonitors() []monitor.Monitor {
	a := &monitor.Apply{}
	return []monitor.Monitor{a, &monitor.Leader{}, &monitor.Commit{}, &monitor.LogMatch{}, &monitor.TermVote{},
		&monitor.Durable{A: a}, &monitor.Linear{A: a},
		&monitor.Reads{A: a, Kind: "read", Prop: "C05"}, &monitor.Reads{A: a, Kind: "lease", Prop: "C17"}}
}

var suites = map[string]*explore.Suite{}

func reg(s *explore.Suite) *explore.Suite {
	if s.Monitors == nil {
		s.Monitors = safetyMonitors
	}
	if _, dup := suites[s.Name]; dup {
		panic("duplicate suite " + s.Name)
	}
	suites[s.Name] = s
	return s
}

func lookupSuite(name string) *explore.Suite { return suites[name] }

// Seeds: scripted event prefixes that drive the real cluster into regions the
// budgets cannot reach from boot (DESIGN 2.4).
var (
	// S-split (3 voters): n0 and n1 are both campaigning for term 3, n2 has the
	// shorter log and has heard nothing of terms 1-2; every vote request is
	// still in flight.
	seedSplit = sim.MustParse(
		"timeout n1", "rt 1>0:RV#0 a=2", "rt 1>0:RV#1", "rt 1>0:AE#0",
		"timeout n0", "rt 0>2:RV#0 a=2", "rt 1>0:AE#1", "timeout n0", "timeout n1",
		"cut n0 a=1", // the two candidates cannot hear each other
		"drop 1>2:RV#0", "drop 1>2:RV#1", "drop 1>2:AE#0", "drop 1>2:AE#1", "drop 0>2:RV#1", // stale requests
	)
	// S-leader (3 voters): n0 leads term 1, its no-op is committed everywhere.
	seedLeader3 = sim.MustParse(
		"timeout n0", "rt 0>1:RV#0 a=2", "rt 0>2:RV#0 a=2", "rt 0>1:RV#1", "rt 0>2:RV#1",
		"rt 0>1:AE#0", "rt 0>2:AE#0", "rt 0>1:AE#1", "rt 0>2:AE#1",
	)
)

func init() {
	reg(&explore.Suite{Name: "free3", Cfg: sim.Config{Voters: 3},
		Budget: sim.Budget{Timeouts: 9, Elapses: 9, Beats: 9, Writes: 9, Reorders: -1, Splits: 9, Deviations: -1}})
	reg(&explore.Suite{Name: "free3h", Cfg: sim.Config{Voters: 3, StoreHook: true},
		Budget: sim.Budget{Timeouts: 9, Elapses: 9, Beats: 9, Writes: 9, Reorders: -1, Splits: 9, Crashes: 9, Arms: 9, Restarts: 9, Deviations: -1}})
	reg(&explore.Suite{Name: "free5", Cfg: sim.Config{Voters: 5},
		Budget: sim.Budget{Timeouts: 9, Elapses: 9, Beats: 9, Writes: 9, Reorders: -1, Splits: 9, Deviations: -1}})

	// Generic families: <kind><voters>-d<deviations>
	for n := 1; n <= 5; n++ {
		for d := 0; d <= 5; d++ {
			// elections + writes, no crashes
			reg(&explore.Suite{Name: fmt.Sprintf("rep%d-d%d", n, d), Cfg: sim.Config{Voters: n},
				Budget: sim.Budget{Timeouts: 3, Elapses: 3, Beats: 2, Writes: 2, Reorders: -1, Splits: 2, Deviations: d}})
			// elections only
			reg(&explore.Suite{Name: fmt.Sprintf("elect%d-d%d", n, d), Cfg: sim.Config{Voters: n},
				Budget: sim.Budget{Timeouts: 4, Elapses: 4, Beats: 1, Reorders: -1, Splits: 2, Drops: 1, Deviations: d}})
			// crashes at quiescent points and at storage boundaries, restarts
			reg(&explore.Suite{Name: fmt.Sprintf("crash%d-d%d", n, d), Cfg: sim.Config{Voters: n, StoreHook: true},
				Budget: sim.Budget{Timeouts: 3, Elapses: 3, Beats: 1, Writes: 2, Reorders: -1, Splits: 1, Crashes: 1, Arms: 1, Restarts: 2, Deviations: d}})
			// faults of the network: drops, duplicates, late replies
			reg(&explore.Suite{Name: fmt.Sprintf("net%d-d%d", n, d), Cfg: sim.Config{Voters: n},
				Budget: sim.Budget{Timeouts: 2, Elapses: 2, Beats: 2, Writes: 2, Reorders: -1, Splits: 3, Drops: 1, DropReplies: 1, Dups: 2, Deviations: d}})
		}
	}
	for d := 0; d <= 5; d++ {
		reg(&explore.Suite{Name: fmt.Sprintf("split3-d%d", d), Cfg: sim.Config{Voters: 3}, Seed: seedSplit,
			Budget: sim.Budget{Timeouts: 2, Elapses: 2, Beats: 1, Reorders: -1, Splits: 1, Deviations: d}})
		reg(&explore.Suite{Name: fmt.Sprintf("lead3-d%d", d), Cfg: sim.Config{Voters: 3, StoreHook: true}, Seed: seedLeader3,
			Budget: sim.Budget{Timeouts: 2, Elapses: 2, Beats: 1, Writes: 2, Reorders: -1, Splits: 2, Crashes: 2, Arms: 1, Restarts: 2, Deviations: d}})
	}
	// small unbounded spaces (no deviation bound): every order within the budgets
	reg(&explore.Suite{Name: "all2", Cfg: sim.Config{Voters: 2},
		Budget: sim.Budget{Timeouts: 3, Elapses: 3, Beats: 1, Writes: 1, Reorders: -1, Splits: 1, Deviations: -1}})
	reg(&explore.Suite{Name: "all1", Cfg: sim.Config{Voters: 1, StoreHook: true},
		Budget: sim.Budget{Timeouts: 3, Elapses: 1, Beats: 2, Writes: 3, Reorders: -1, Crashes: 2, Arms: 2, Restarts: 2, Deviations: -1}})
}
