package main

import (
	"fmt"

	"github.com/jmsadair/raft"
	"verif/mc/common"
	"verif/mc/explore"
	"verif/mc/monitor"
	"verif/mc/sim"
)

func memberMonitors() []monitor.Monitor {
	a := &monitor.Apply{}
	tv := &monitor.TermVote{}
	return []monitor.Monitor{a, &monitor.Leader{}, &monitor.Commit{}, &monitor.LogMatch{}, tv, &monitor.Member{TV: tv}, &monitor.Linear{A: a},
		&monitor.Reads{A: a, Kind: "read", Prop: "C05"}}
}

// memberClassify marks violations that happen while some leader acts on a
// configuration that has been superseded by a committed one (K5: followers
// switch configuration when an entry is applied, not when it is appended).
func memberClassify(c *sim.Cluster, v *common.Violation) {
	var latest uint64
	for i := range c.Nodes {
		if vw, ok := c.View(i); ok && vw.HasCommitted && vw.Committed.Index > latest {
			latest = vw.Committed.Index
		}
	}
	for i := range c.Nodes {
		if vw, ok := c.View(i); ok && vw.State == raft.Leader && vw.HasConfiguration && vw.Configuration.Index < latest {
			v.Signature += ":leader-on-superseded-configuration"
			return
		}
	}
}

func stickyMonitors(leader int, majority []int) func() []monitor.Monitor {
	return func() []monitor.Monitor {
		a := &monitor.Apply{}
		return []monitor.Monitor{a, &monitor.Leader{}, &monitor.TermVote{}, &monitor.Sticky{Leader: leader, Majority: majority}}
	}
}

// onlyNodes restricts fault events to the listed nodes (the premise of C16:
// the leader and a majority stay in prompt contact).
func onlyNodes(nodes ...int) func(c *sim.Cluster, ev []sim.Event) []sim.Event {
	ok := map[int]bool{}
	for _, n := range nodes {
		ok[n] = true
	}
	return func(c *sim.Cluster, ev []sim.Event) []sim.Event {
		out := ev[:0:0]
		for _, e := range ev {
			switch e.K {
			case "isolate", "mute", "deafen", "crash", "restart", "arm":
				if !ok[e.N] {
					continue
				}
			}
			out = append(out, e)
		}
		return out
	}
}

func leaseMonitors() []monitor.Monitor {
	a := &monitor.Apply{}
	return []monitor.Monitor{a, &monitor.Leader{}, &monitor.Commit{}, &monitor.TermVote{}, &monitor.Linear{A: a},
		&monitor.Reads{A: a, Kind: "lease", Prop: "C17"}}
}

func safetyMonitors() []monitor.Monitor {
	a := &monitor.Apply{}
	return []monitor.Monitor{a, &monitor.Leader{}, &monitor.Commit{}, &monitor.LogMatch{}, &monitor.TermVote{},
		&monitor.Durable{A: a}, &monitor.Linear{A: a},
		&monitor.Reads{A: a, Kind: "read", Prop: "C05"}, &monitor.Reads{A: a, Kind: "lease", Prop: "C17"}}
}

var suites = map[string]*explore.Suite{}
var numHV int

func reg(s *explore.Suite) *explore.Suite {
	if s.Monitors == nil {
		s.Monitors = safetyMonitors
	}
	if _, dup := suites[s.Name]; dup {
		panic("duplicate suite " + s.Name)
	}
	suites[s.Name] = s
	return s
}

func lookupSuite(name string) *explore.Suite { return suites[name] }

// Seeds: scripted event prefixes that drive the real cluster into regions the
// budgets cannot reach from boot (DESIGN 2.4).
var (
	// S-split (3 voters): n0 and n1 are both asking for prevotes for term 3 (n1
	// led term 1, n0 was a candidate of term 2), n2 has the shorter log and has
	// heard nothing of terms 1-2; every vote request is still in flight.
	seedSplit = sim.MustParse(
		"timeout n1", "rt 1>0:RV#0 a=2", "rt 1>0:RV#1", "rt 1>0:AE#0",
		"timeout n0", "rt 0>2:RV#0 a=2", "rt 1>0:AE#1", "timeout n0", "timeout n1",
		"cut n0 a=1",                                                                        // the two candidates cannot hear each other
		"drop 1>2:RV#0", "drop 1>2:RV#1", "drop 1>2:AE#0", "drop 1>2:AE#1", "drop 0>2:RV#1", // stale requests
	)
	// S-stale (5 voters, K19): n0 led term 1 and has two unanswered AppendEntries:
	// one (entries 3..5) that n1 accepted in term 1, one that n1 rejected in term 2; n2 led term 2 and overwrote index 3 on
	// n0 and n1; n0 now leads term 3 (log 1,2,3',4) and the term-1 reply is
	// still deliverable.
	seedStale5 = sim.MustParse(
		"timeout n0", "rt 0>1:RV#0 a=2", "rt 0>2:RV#0 a=2", "rt 0>1:RV#1", "rt 0>2:RV#1",
		"rt 0>1:AE#0", "rt 0>2:AE#0", "rt 0>3:AE#0", "rt 0>4:AE#0",
		"rt 0>1:AE#1", "rt 0>2:AE#1", "rt 0>3:AE#1", "rt 0>4:AE#1",
		"write n0", "write n0", "write n0", "deliver 0>1:AE#4", "isolate n0",
		"timeout n2", "rt 2>3:RV#0 a=2", "rt 2>4:RV#0 a=2", "rt 2>3:RV#1", "rt 2>4:RV#1",
		"rt 2>1:AE#0", "deliver 0>1:AE#3", // a second term-1 request reaches n1 late: rejected with term 2, reply withheld too
		"heal", "rt 2>0:AE#0",
		"timeout n0", "rt 0>1:RV#2 a=2", "rt 0>3:RV#2 a=2", "rt 0>1:RV#3", "rt 0>3:RV#3",
		// stale requests nobody needs any more
		"drop 0>3:RV#0", "drop 0>4:RV#0", "drop 0>3:RV#1", "drop 0>4:RV#1",
		"drop 0>1:AE#2", "drop 0>2:AE#2", "drop 0>3:AE#2", "drop 0>4:AE#2",
		"drop 0>2:AE#3", "drop 0>3:AE#3", "drop 0>4:AE#3",
		"drop 0>2:AE#4", "drop 0>3:AE#4", "drop 0>4:AE#4",
		"drop 2>0:RV#0", "drop 2>1:RV#0", "drop 2>0:RV#1", "drop 2>1:RV#1",
		"drop 2>3:AE#0", "drop 2>4:AE#0", "drop 2>0:AE#1", "drop 2>1:AE#1", "drop 2>3:AE#1", "drop 2>4:AE#1",
		"drop 0>2:RV#2", "drop 0>4:RV#2", "drop 0>2:RV#3", "drop 0>4:RV#3",
	)
	// S-deposed (3 voters, K1): n0 led term 1 and still believes it does; one of
	// its heartbeats was handled by n1 but the reply is withheld; n2 leads
	// term 2 with n1; n0 is cut off.
	seedDeposed3 = sim.MustParse(
		"timeout n0", "rt 0>1:RV#0 a=2", "rt 0>2:RV#0 a=2", "rt 0>1:RV#1", "rt 0>2:RV#1",
		"rt 0>1:AE#0", "rt 0>2:AE#0", "rt 0>1:AE#1", "rt 0>2:AE#1",
		"beat n0", "deliver 0>1:AE#2", "isolate n0", "timeout n2", "rt 2>1:RV#0 a=2", "rt 2>1:RV#1", "rt 2>1:AE#0",
		"drop 2>1:AE#1",
	)
	// S-regained (5 voters): like S-stale, but n1's acknowledgement of entries 3..5
	// reached n0 during term 1 (its per-follower bookkeeping was updated), then n0
	// lost leadership, n1's log was overwritten, and n0 leads again in term 3.
	seedRegained5 = func() []sim.Event {
		var out []sim.Event
		for _, e := range seedStale5 {
			if e.K == "deliver" && e.M == "0>1:AE#4" {
				e.K = "rt"
			}
			out = append(out, e)
		}
		return out
	}()
	// S-leader5 (5 voters): n0 leads term 1, no-op committed everywhere.
	seedLeader5 = sim.MustParse(
		"timeout n0", "rt 0>1:RV#0 a=2", "rt 0>2:RV#0 a=2", "rt 0>3:RV#0 a=2", "rt 0>4:RV#0 a=2",
		"rt 0>1:RV#1", "rt 0>2:RV#1", "rt 0>3:RV#1", "rt 0>4:RV#1",
		"rt 0>1:AE#0", "rt 0>2:AE#0", "rt 0>3:AE#0", "rt 0>4:AE#0",
		"rt 0>1:AE#1", "rt 0>2:AE#1", "rt 0>3:AE#1", "rt 0>4:AE#1",
	)
	// S-nonvoters (3 voters + 2 non-voters, K2): n0 led term 1, added n3 and n4 as
	// non-voting members (both changes committed everywhere), then lost contact
	// with the voters n1 and n2 but not with the non-voters; n1 leads term 2.
	seedNonVoters = sim.MustParse(
		"timeout n0", "rt 0>1:RV#0 a=2", "rt 0>2:RV#0 a=2", "rt 0>1:RV#1", "rt 0>2:RV#1",
		"rt 0>1:AE#0", "rt 0>2:AE#0", "rt 0>1:AE#1", "rt 0>2:AE#1",
		"add n0 a=3 nonvoter", "rt 0>1:AE#2", "rt 0>2:AE#2", "rt 0>3:AE#0", "rt 0>1:AE#3", "rt 0>2:AE#3", "rt 0>3:AE#1",
		"add n0 a=4 nonvoter", "rt 0>1:AE#4", "rt 0>2:AE#4", "rt 0>3:AE#2", "rt 0>4:AE#0", "rt 0>1:AE#5", "rt 0>2:AE#5", "rt 0>3:AE#3", "rt 0>4:AE#1",
		"cut n0 a=1", "cut n0 a=2", "cut n1 a=3", "cut n1 a=4", "cut n2 a=3", "cut n2 a=4", // partition {n0,n3,n4} | {n1,n2}
		"timeout n1", "rt 1>2:RV#0 a=2", "rt 1>2:RV#1", "rt 1>2:AE#0",
	)
	// S-leader (3 voters): n0 leads term 1, its no-op is committed everywhere.
	seedLeader3 = sim.MustParse(
		"timeout n0", "rt 0>1:RV#0 a=2", "rt 0>2:RV#0 a=2", "rt 0>1:RV#1", "rt 0>2:RV#1",
		"rt 0>1:AE#0", "rt 0>2:AE#0", "rt 0>1:AE#1", "rt 0>2:AE#1",
	)
)

func init() {
	reg(&explore.Suite{Name: "freelead3", Cfg: sim.Config{Voters: 3}, Seed: seedLeader3,
		Budget: sim.Budget{Timeouts: 9, Elapses: 9, Beats: 9, Writes: 9, Reads: 9, Reorders: -1, Splits: 9, Cuts: 9, Deviations: -1}})
	reg(&explore.Suite{Name: "freesnap3", Cfg: sim.Config{Voters: 3, SnapAt: 2}, Seed: seedLeader3,
		Budget: sim.Budget{Timeouts: 9, Elapses: 9, Beats: 9, Writes: 9, Reads: 9, Reorders: -1, Splits: 9, Cuts: 9, Crashes: 9, Restarts: 9, Deviations: -1}})
	reg(&explore.Suite{Name: "freeapi", Cfg: sim.Config{Voters: 3, Spares: 1, Cold: true}, Seed: seedLeader3,
		Budget: sim.Budget{Timeouts: 9, Elapses: 9, Beats: 9, Writes: 9, Reads: 9, Members: 9, Reorders: -1, Splits: 9, Cuts: 9, Deviations: -1}})
	reg(&explore.Suite{Name: "free3", Cfg: sim.Config{Voters: 3},
		Budget: sim.Budget{Timeouts: 9, Elapses: 9, Beats: 9, Writes: 9, Reorders: -1, Splits: 9, Deviations: -1}})
	reg(&explore.Suite{Name: "free3h", Cfg: sim.Config{Voters: 3, StoreHook: true},
		Budget: sim.Budget{Timeouts: 9, Elapses: 9, Beats: 9, Writes: 9, Reorders: -1, Splits: 9, Crashes: 9, Arms: 9, Restarts: 9, Deviations: -1}})
	reg(&explore.Suite{Name: "freelead5t", Cfg: sim.Config{Voters: 5, Timed: true}, Seed: seedLeader5, Monitors: leaseMonitors,
		Budget: sim.Budget{Writes: 9, LeaseReads: 9, Cuts: 9, Lags: 9, Reorders: -1, MsgSteps: 99, Deviations: -1}})
	reg(&explore.Suite{Name: "free5", Cfg: sim.Config{Voters: 5},
		Budget: sim.Budget{Timeouts: 9, Elapses: 9, Beats: 9, Writes: 9, Reorders: -1, Splits: 9, Deviations: -1}})

	// Generic families: <kind><voters>-d<deviations>
	for n := 1; n <= 5; n++ {
		for d := 0; d <= 6; d++ {
			// elections + writes, no crashes
			reg(&explore.Suite{Name: fmt.Sprintf("rep%d-d%d", n, d), Cfg: sim.Config{Voters: n},
				Budget: sim.Budget{Timeouts: 3, Elapses: 3, Beats: 2, Writes: 2, Reorders: -1, Splits: 2, Deviations: d}})
			// elections only
			reg(&explore.Suite{Name: fmt.Sprintf("elect%d-d%d", n, d), Cfg: sim.Config{Voters: n},
				Budget: sim.Budget{Timeouts: 4, Elapses: 4, Beats: 1, Reorders: -1, Splits: 2, Drops: 1, Deviations: d}})
			// crashes at quiescent points and at storage boundaries, restarts
			reg(&explore.Suite{Name: fmt.Sprintf("crash%d-d%d", n, d), Cfg: sim.Config{Voters: n, StoreHook: true},
				Budget: sim.Budget{Timeouts: 3, Elapses: 3, Beats: 1, Writes: 2, Reorders: -1, Splits: 1, Crashes: 1, Arms: 1, Restarts: 2, Deviations: d}})
			// the same on the library's real file-backed storages (crashes at quiescent points)
			reg(&explore.Suite{Name: fmt.Sprintf("filecrash%d-d%d", n, d), Cfg: sim.Config{Voters: n, FileStore: true},
				Budget: sim.Budget{Timeouts: 3, Elapses: 3, Beats: 1, Writes: 2, Reorders: -1, Splits: 1, Crashes: 1, Restarts: 2, Deviations: d}})
			// ... with crashes armed at mutating file-system calls (inside storage operations)
			reg(&explore.Suite{Name: fmt.Sprintf("filearm%d-d%d", n, d), Cfg: sim.Config{Voters: n, FileStore: true, ArmDepth: 4},
				Budget: sim.Budget{Timeouts: 3, Elapses: 3, Beats: 1, Writes: 2, Reorders: -1, Splits: 1, Crashes: 1, Arms: 1, Restarts: 2, Deviations: d}})
			// faults of the network: drops, duplicates, late replies
			reg(&explore.Suite{Name: fmt.Sprintf("net%d-d%d", n, d), Cfg: sim.Config{Voters: n},
				Budget: sim.Budget{Timeouts: 2, Elapses: 2, Beats: 2, Writes: 2, Reorders: -1, Splits: 3, Drops: 1, DropReplies: 1, Dups: 2, Deviations: d}})
		}
	}
	for d := 0; d <= 6; d++ {
		reg(&explore.Suite{Name: fmt.Sprintf("split3-d%d", d), Cfg: sim.Config{Voters: 3}, Seed: seedSplit,
			Budget: sim.Budget{Timeouts: 2, Elapses: 2, Beats: 1, Reorders: -1, Splits: 1, Deviations: d}})
		// S-revote: after S-split n2 voted for n0 (which leads term 3), crashed and
		// restarted; n1 campaigned again, got n2's prevote and its request for
		// n2's real vote of term 3 has been answered (refused on a correct library)
		reg(&explore.Suite{Name: fmt.Sprintf("revote3-d%d", d), Cfg: sim.Config{Voters: 3},
			Seed:   append(append([]sim.Event{}, seedSplit...), sim.MustParse("rt 0>2:RV#2", "crash n2", "restart n2", "timeout n1", "rt 1>2:RV#3 a=2", "rt 1>2:RV#4")...),
			Budget: sim.Budget{Timeouts: 1, Elapses: 1, Beats: 1, Writes: 2, Cuts: 1, Reorders: -1, Splits: 1, Deviations: d}})
		// two candidates of one term, voters that crash and restart, on the real file-backed storages
		reg(&explore.Suite{Name: fmt.Sprintf("filesplit3-d%d", d), Cfg: sim.Config{Voters: 3, FileStore: true}, Seed: seedSplit,
			Budget: sim.Budget{Timeouts: 2, Elapses: 2, Beats: 1, Reorders: -1, Splits: 1, Crashes: 1, Restarts: 1, Deviations: d}})
		reg(&explore.Suite{Name: fmt.Sprintf("lead3-d%d", d), Cfg: sim.Config{Voters: 3, StoreHook: true}, Seed: seedLeader3,
			Budget: sim.Budget{Timeouts: 2, Elapses: 2, Beats: 1, Writes: 2, Reorders: -1, Splits: 2, Crashes: 2, Arms: 1, Restarts: 2, Deviations: d}})
	}
	for d := 0; d <= 6; d++ {
		reg(&explore.Suite{Name: fmt.Sprintf("regained5-d%d", d), Cfg: sim.Config{Voters: 5}, Seed: seedRegained5,
			Budget: sim.Budget{Timeouts: 1, Elapses: 1, Beats: 2, Writes: 1, Reorders: -1, Splits: 1, Deviations: d}})
	}
	// S-regained-elect (5 voters): after S-regained the leader n0 (term 3) has
	// replicated its no-op and one write to n3 only (2 of 5 copies: nothing is
	// committed); n0 and n3 are then cut off and n1 wins term 4 with n2 and n4.
	regainedElect := append(append([]sim.Event{}, seedRegained5...), sim.MustParse("rt 0>3:AE#5", "write n0", "rt 0>3:AE#6", "isolate n0", "isolate n3",
		"timeout n1", "rt 1>2:RV#0 a=2", "rt 1>4:RV#0 a=2", "rt 1>2:RV#1", "rt 1>4:RV#1")...)
	for d := 0; d <= 6; d++ {
		reg(&explore.Suite{Name: fmt.Sprintf("regainedelect5-d%d", d), Cfg: sim.Config{Voters: 5}, Seed: regainedElect,
			Budget: sim.Budget{Timeouts: 1, Elapses: 1, Beats: 2, Writes: 1, Cuts: 1, Reorders: -1, Splits: 1, Deviations: d}})
	}
	// S-stoprestart (C03): the cut-off leader n0 had two submissions in flight
	// when its application stopped and restarted the same instance (the clients
	// still hold the futures); n1 leads term 2 with n2; the partition has healed.
	stopRestart := append(append([]sim.Event{}, seedLeader3...), sim.MustParse("isolate n0", "write n0", "write n0", "api n0 Stop", "api n0 Restart",
		"timeout n1", "rt 1>2:RV#0 a=2", "rt 1>2:RV#1", "rt 1>2:AE#0", "rt 1>2:AE#1", "heal")...)
	for d := 0; d <= 6; d++ {
		reg(&explore.Suite{Name: fmt.Sprintf("stoprestart3-d%d", d), Cfg: sim.Config{Voters: 3}, Seed: stopRestart,
			Budget: sim.Budget{Timeouts: 1, Elapses: 1, Beats: 2, Writes: 2, Cuts: 1, Reorders: -1, Splits: 1, ClientTimeouts: 1, Deviations: d}})
	}
	for n := 2; n <= 4; n++ {
		for d := 0; d <= 6; d++ {
			// partitions: isolate / heal any node
			reg(&explore.Suite{Name: fmt.Sprintf("part%d-d%d", n, d), Cfg: sim.Config{Voters: n},
				Budget: sim.Budget{Timeouts: 3, Elapses: 3, Beats: 1, Writes: 2, Cuts: 2, Reorders: -1, Splits: 1, Deviations: d}})
		}
	}
	for d := 0; d <= 6; d++ {
		reg(&explore.Suite{Name: fmt.Sprintf("stale5-d%d", d), Cfg: sim.Config{Voters: 5}, Seed: seedStale5,
			Budget: sim.Budget{Timeouts: 1, Elapses: 1, Beats: 2, Writes: 1, Reorders: -1, Splits: 1, Deviations: d}})
	}
	for d := 0; d <= 6; d++ {
		reg(&explore.Suite{Name: fmt.Sprintf("deposed3-d%d", d), Cfg: sim.Config{Voters: 3}, Seed: seedDeposed3,
			Budget: sim.Budget{Timeouts: 1, Elapses: 1, Beats: 1, Writes: 1, Reads: 2, Reorders: -1, Splits: 1, Cuts: 1, Deviations: d}})
		reg(&explore.Suite{Name: fmt.Sprintf("read3-d%d", d), Cfg: sim.Config{Voters: 3}, Seed: seedLeader3,
			Budget: sim.Budget{Timeouts: 1, Elapses: 1, Beats: 2, Writes: 1, Reads: 2, Reorders: -1, Splits: 2, Cuts: 1, Deviations: d}})
		reg(&explore.Suite{Name: fmt.Sprintf("cli3-d%d", d), Cfg: sim.Config{Voters: 3}, Seed: seedLeader3,
			Budget: sim.Budget{Timeouts: 1, Elapses: 1, Beats: 1, Writes: 3, Reorders: -1, Splits: 2, Cuts: 1, ClientTimeouts: 1, Crashes: 1, Restarts: 1, Deviations: d}})
	}
	// HANDLER suites for C08: one real node booted from preloaded storage, two
	// puppet peers; unbounded injections, bounded timeouts/crashes, capped terms.
	hv := 0
	for _, term := range []uint64{1, 2} {
		for _, vote := range []string{"", "n1", "n2"} {
			for _, last := range [][2]uint64{{1, 1}, {2, 1}, {2, 2}} {
				if last[1] > term {
					continue
				}
				term, vote, last := term, vote, last
				for _, tier := range []string{"q", "t"} {
					b := sim.Budget{Timeouts: 2, Elapses: 2, Crashes: 1, Arms: 1, Restarts: 1, Reorders: -1, Deviations: -1, Steps: 4}
					capAdd := uint64(2)
					if tier == "t" {
						b = sim.Budget{Timeouts: 2, Elapses: 3, Crashes: 1, Arms: 1, Restarts: 1, Reorders: -1, Deviations: -1, Steps: 5}
						capAdd = 3
					}
					reg(&explore.Suite{Name: fmt.Sprintf("hv%s-%d", tier, hv), Budget: b,
						Boot: func(b sim.Budget) *sim.Cluster {
							sim.Puppet.TermCap = term + capAdd
							p := sim.Preload{Peers: 3, Term: term, Vote: vote, HasState: true, Hook: true}
							p.Entries = []raft.LogEntry{{Index: 1, Term: 1, EntryType: raft.ConfigurationEntry, Data: sim.ConfData(3, 1)}}
							if last[0] == 2 {
								p.Entries = append(p.Entries, raft.LogEntry{Index: 2, Term: last[1], EntryType: raft.NoOpEntry})
							}
							return sim.NewSingle(p, b)
						}})
				}
				hv++
			}
		}
	}
	numHV = hv
	// membership: 1-3 voters plus spares started empty
	for d := 0; d <= 6; d++ {
		for v := 1; v <= 3; v++ {
			reg(&explore.Suite{Name: fmt.Sprintf("mem%d-d%d", v, d), Cfg: sim.Config{Voters: v, Spares: 2}, Monitors: memberMonitors, Classify: memberClassify,
				Budget: sim.Budget{Timeouts: 2, Elapses: 2, Beats: 1, Writes: 1, Members: 2, Reorders: -1, Splits: 1, Cuts: 1, Deviations: d}})
		}
		reg(&explore.Suite{Name: fmt.Sprintf("memlead3-d%d", d), Cfg: sim.Config{Voters: 3, Spares: 1}, Seed: seedLeader3, Monitors: memberMonitors, Classify: memberClassify,
			Budget: sim.Budget{Timeouts: 2, Elapses: 2, Beats: 1, Writes: 1, Members: 2, Reorders: -1, Splits: 1, Cuts: 1, Crashes: 1, Restarts: 1, Deviations: d}})
	}
	reg(&explore.Suite{Name: "freememlead3", Cfg: sim.Config{Voters: 3, Spares: 1}, Seed: seedLeader3, Monitors: memberMonitors,
		Budget: sim.Budget{Timeouts: 9, Elapses: 9, Beats: 9, Writes: 9, Reads: 9, Members: 9, Reorders: -1, Splits: 9, Cuts: 9, Crashes: 9, Restarts: 9, Deviations: -1}})
	reg(&explore.Suite{Name: "freenv", Cfg: sim.Config{Voters: 3, Spares: 2}, Seed: seedLeader3, Monitors: memberMonitors,
		Budget: sim.Budget{Timeouts: 9, Elapses: 9, Beats: 9, Writes: 9, Reads: 9, Members: 9, Reorders: -1, Splits: 9, Cuts: 9, Crashes: 9, Restarts: 9, Deviations: -1}})
	reg(&explore.Suite{Name: "freememt", Cfg: sim.Config{Voters: 3, Spares: 1}, Seed: seedLeader3, Monitors: memberMonitors,
		Budget: sim.Budget{Timeouts: 9, Elapses: 9, Beats: 9, Writes: 9, Reads: 9, Members: 9, Reorders: -1, Splits: 9, Cuts: 9, Crashes: 9, Restarts: 9, Deviations: -1}})
	reg(&explore.Suite{Name: "freemem4", Cfg: sim.Config{Voters: 4, Spares: 1}, Monitors: memberMonitors,
		Budget: sim.Budget{Timeouts: 9, Elapses: 9, Beats: 9, Writes: 9, Reads: 9, Members: 9, Reorders: -1, Splits: 9, Cuts: 9, Crashes: 9, Restarts: 9, Deviations: -1}})
	// C16: timed, faults only on the minority node n2
	for d := 0; d <= 6; d++ {
		for rot := 0; rot < 3; rot++ {
			reg(&explore.Suite{Name: fmt.Sprintf("sticky3r%d-d%d", rot, d), Cfg: sim.Config{Voters: 3, Timed: true, Asym: true, Rot: rot}, Seed: seedLeader3,
				Monitors: stickyMonitors(0, []int{0, 1}), Filter: onlyNodes(2),
				Budget: sim.Budget{Cuts: 3, Crashes: 1, Restarts: 1, Steps: 36, Reorders: -1, MsgSteps: 2, Deviations: d}})
		}
	}
	// C16 seed S-removed: n2 was cut off, then removed from the cluster (committed
	// by n0 and n1) without ever learning of it; it has been campaigning for 10
	// intervals with the old configuration.
	removedNode := append(append([]sim.Event{}, seedLeader3...), sim.MustParse("isolate n2", "remove n0 a=2", "adv", "adv", "adv", "adv", "adv", "adv", "adv", "adv", "adv", "adv", "adv", "adv", "adv", "adv")...)
	for d := 0; d <= 6; d++ {
		reg(&explore.Suite{Name: fmt.Sprintf("removed3-d%d", d), Cfg: sim.Config{Voters: 3, Timed: true, Asym: true}, Seed: removedNode,
			Monitors: stickyMonitors(0, []int{0, 1}), Filter: onlyNodes(2),
			Budget: sim.Budget{Cuts: 2, Crashes: 1, Restarts: 1, Steps: 16, Reorders: -1, MsgSteps: 3, Deviations: d}})
	}
	// C16 seed S-contested: n0 and n2 both campaigned for term 1; n1 voted for
	// n0, which leads; n2 lost as a candidate of the same term and follows n0.
	// n2 has then been cut off for 10 intervals.
	contested := sim.MustParse("timeout n0", "rt 0>1:RV#0 a=2", "timeout n2", "rt 2>1:RV#0 a=2", "rt 0>1:RV#1", "rt 2>1:RV#1",
		"rt 0>2:RV#0", "rt 0>2:RV#1", "rt 2>0:RV#0", "rt 2>0:RV#1", "rt 0>1:AE#0", "rt 0>2:AE#0", "rt 0>1:AE#1", "rt 0>2:AE#1",
		"isolate n2", "adv", "adv", "adv", "adv", "adv", "adv", "adv", "adv", "adv", "adv")
	for d := 0; d <= 6; d++ {
		for rot := 0; rot < 3; rot++ {
			reg(&explore.Suite{Name: fmt.Sprintf("contested3r%d-d%d", rot, d), Cfg: sim.Config{Voters: 3, Timed: true, Asym: true, Rot: rot}, Seed: contested,
				Monitors: stickyMonitors(0, []int{0, 1}), Filter: onlyNodes(2),
				Budget: sim.Budget{Cuts: 2, Crashes: 1, Restarts: 1, Steps: 16, Reorders: -1, MsgSteps: 3, Deviations: d}})
		}
	}
	// C16 seed S-removedcandidate: n2 won a prevote from n1 at a moment n1 had not
	// heard from the leader, became a real candidate of term 2 and was cut off
	// with its vote requests still in flight; the leader n0 (term 1) has since
	// removed n2 from the cluster (committed with n1), so it never contacts n2
	// again: n2's vote requests are the only way its higher term can travel.
	removedCandidate := append(append([]sim.Event{}, seedLeader3...), sim.MustParse("timeout n2", "rt 2>1:RV#0 a=2", "isolate n2", "remove n0 a=2",
		"drop 0>2:AE#2", "rt 0>1:AE#2", "adv", "adv")...)
	for d := 0; d <= 6; d++ {
		reg(&explore.Suite{Name: fmt.Sprintf("removedcand3-d%d", d), Cfg: sim.Config{Voters: 3, Timed: true, Asym: true}, Seed: removedCandidate,
			Monitors: stickyMonitors(0, []int{0, 1}), Filter: onlyNodes(2),
			Budget: sim.Budget{Cuts: 2, Crashes: 1, Restarts: 1, Steps: 12, Reorders: -1, MsgSteps: 3, Deviations: d}})
	}
	// C16 seed S-candidatecut: n2 lost the election of term 1 as a real candidate
	// and was cut off before it heard from the winner n0; 10 intervals later.
	candidateCut := sim.MustParse("timeout n0", "rt 0>1:RV#0 a=2", "timeout n2", "rt 2>1:RV#0 a=2", "rt 0>1:RV#1", "rt 2>1:RV#1",
		"rt 0>2:RV#0", "rt 0>2:RV#1", "rt 2>0:RV#0", "rt 2>0:RV#1", "isolate n2", "rt 0>1:AE#0", "rt 0>1:AE#1",
		"drop 0>2:AE#0", "drop 0>2:AE#1",
		"adv", "adv", "adv", "adv", "adv", "adv", "adv", "adv", "adv", "adv")
	for d := 0; d <= 6; d++ {
		reg(&explore.Suite{Name: fmt.Sprintf("candcut3-d%d", d), Cfg: sim.Config{Voters: 3, Timed: true, Asym: true}, Seed: candidateCut,
			Monitors: stickyMonitors(0, []int{0, 1}), Filter: onlyNodes(2),
			Budget: sim.Budget{Cuts: 2, Crashes: 1, Restarts: 1, Steps: 16, Reorders: -1, MsgSteps: 3, Deviations: d}})
	}
	// C16 seed S-snapcatchup (snapshots of two requests): n1 was down while the
	// leader n0 compacted its log, came back cut off from everybody and stayed
	// silent for 8 intervals; the link n0-n2 is cut, so n2 campaigns but still
	// reaches n1. The partition around n1 has healed and n1 has just heard from
	// n0 (first snapshot request): from here on n0 is in prompt contact with the
	// majority {n0, n1} while n1 is caught up by a snapshot that takes several
	// heartbeats to transfer, and one prevote of n2 is on its way to n1.
	snapCatchup := append(append([]sim.Event{}, seedLeader3...), sim.MustParse(
		"crash n1", "write n0", "adv", "write n0", "adv", "write n0", "adv", "restart n1", "isolate n1", "cut n0 a=2",
		"adv", "adv", "adv", "adv", "adv", "adv", "adv", "adv", "heal", "cut n0 a=2",
		"drop 0>1:IS#3", "drop 0>1:IS#4", "drop 0>1:IS#5", "drop 0>1:IS#6", "drop 0>1:IS#7", "drop 0>1:IS#8", "drop 0>1:IS#9", "drop 0>1:IS#10",
		"drop 1>0:RV#0", "drop 1>2:RV#0", "rt 0>1:IS#11")...)
	for d := 0; d <= 6; d++ {
		reg(&explore.Suite{Name: fmt.Sprintf("stickysnap3-d%d", d), Cfg: sim.Config{Voters: 3, Timed: true, Asym: true, SnapAt: 2, SnapPad: 33 * 1024}, Seed: snapCatchup,
			Monitors: stickyMonitors(0, []int{0, 1}), Filter: onlyNodes(2),
			Budget: sim.Budget{Cuts: 2, Steps: 12, Reorders: -1, MsgSteps: 4, Deviations: d}})
	}
	// C16 seed S-isolated: n2 has been cut off for 10 intervals and is campaigning
	isolated := append(append([]sim.Event{}, seedLeader3...), sim.MustParse("isolate n2", "adv", "adv", "adv", "adv", "adv", "adv", "adv", "adv", "adv", "adv")...)
	for d := 0; d <= 6; d++ {
		for rot := 0; rot < 3; rot++ {
			reg(&explore.Suite{Name: fmt.Sprintf("rejoin3r%d-d%d", rot, d), Cfg: sim.Config{Voters: 3, Timed: true, Asym: true, Rot: rot}, Seed: isolated,
				Monitors: stickyMonitors(0, []int{0, 1}), Filter: onlyNodes(2),
				Budget: sim.Budget{Cuts: 2, Crashes: 1, Restarts: 1, Steps: 16, Reorders: -1, MsgSteps: 3, Deviations: d}})
		}
	}
	// C17: timed lease reads. S-cutleader: the leader n0 has been cut off for 10
	// intervals (a new leader exists on the other side).
	cutLeader := append(append([]sim.Event{}, seedLeader3...), sim.MustParse("isolate n0", "adv", "adv", "adv", "adv", "adv", "adv", "adv", "adv", "adv", "adv", "adv", "adv")...)
	// S-minority5: leader n0 keeps only n1 (2 of 5); n2 leads term 2 with n3, n4.
	minority5 := append(append([]sim.Event{}, seedLeader5...), sim.MustParse("cut n0 a=2", "cut n0 a=3", "cut n0 a=4", "cut n1 a=2", "cut n1 a=3", "cut n1 a=4",
		"adv", "adv", "adv", "adv", "adv", "adv", "adv", "adv", "adv", "adv", "adv", "adv", "adv")...)
	for d := 0; d <= 6; d++ {
		reg(&explore.Suite{Name: fmt.Sprintf("minlease5-d%d", d), Cfg: sim.Config{Voters: 5, Timed: true}, Seed: minority5, Monitors: leaseMonitors,
			Budget: sim.Budget{Writes: 1, LeaseReads: 2, Lags: 1, Steps: 8, Reorders: -1, Deviations: d}})
	}
	// S-lagging (C17): n2 was cut off at index 2; n1 took over as leader of term
	// 2 (entries 3, 4 committed with n0) and still probes n2 above its log, so
	// n2 will reject its next heartbeat; the link n1-n0 has been cut for 7
	// intervals and n0 is campaigning; the partition around n2 has just healed.
	lagging := append(append([]sim.Event{}, seedLeader3...), sim.MustParse(
		"isolate n2", "write n0", "rt 0>1:AE#2", "rt 0>1:AE#3", "timeout n1", "rt 1>0:RV#0 a=2", "rt 1>0:RV#1", "rt 1>0:AE#0", "rt 1>0:AE#1",
		"drop 0>2:AE#2", "drop 0>2:AE#3", "drop 1>2:RV#0", "drop 1>2:RV#1", "cut n1 a=0", "adv", "adv", "adv", "adv", "adv", "adv", "adv", "heal", "cut n1 a=0")...)
	for d := 0; d <= 6; d++ {
		reg(&explore.Suite{Name: fmt.Sprintf("laglease3-d%d", d), Cfg: sim.Config{Voters: 3, Timed: true}, Seed: lagging, Monitors: leaseMonitors,
			Budget: sim.Budget{Writes: 1, LeaseReads: 2, Lags: 1, Steps: 8, Reorders: -1, MsgSteps: 1, Deviations: d}})
	}
	// S-cutleader with snapshots and a spare (C09/C17): the cut-off leader n0 has
	// compacted its log; a member it adds now can only be served by snapshot.
	cutSnap := append(append([]sim.Event{}, seedLeader3...), sim.MustParse("write n0", "adv", "write n0", "adv", "write n0", "adv", "cut n0 a=1", "cut n0 a=2",
		"adv", "adv", "adv", "adv", "adv", "adv", "adv", "adv", "adv", "adv", "adv", "adv")...)
	for d := 0; d <= 6; d++ {
		reg(&explore.Suite{Name: fmt.Sprintf("nvsnaplease4-d%d", d), Cfg: sim.Config{Voters: 3, Spares: 1, Timed: true, SnapAt: 2}, Seed: cutSnap, Monitors: leaseMonitors,
			Budget: sim.Budget{Writes: 1, LeaseReads: 2, Members: 1, Lags: 1, Steps: 8, Reorders: -1, Deviations: d}})
	}
	// S-nonvoters, timed (C17): leader n0 keeps only the two non-voters; n1 leads
	// term 2 on the other side; four intervals have passed.
	nvLease := append(append([]sim.Event{}, seedNonVoters...), sim.MustParse("rt 1>2:AE#1", "adv", "adv", "adv", "adv")...)
	for d := 0; d <= 6; d++ {
		reg(&explore.Suite{Name: fmt.Sprintf("nvlease5-d%d", d), Cfg: sim.Config{Voters: 3, Spares: 2, Timed: true}, Seed: nvLease, Monitors: leaseMonitors,
			Budget: sim.Budget{Writes: 1, LeaseReads: 2, Lags: 1, Steps: 8, Reorders: -1, Deviations: d}})
	}
	for d := 0; d <= 6; d++ {
		reg(&explore.Suite{Name: fmt.Sprintf("lease3-d%d", d), Cfg: sim.Config{Voters: 3, Timed: true}, Seed: seedLeader3, Monitors: leaseMonitors,
			Budget: sim.Budget{Writes: 1, LeaseReads: 2, Cuts: 2, Lags: 2, Steps: 30, Reorders: -1, MsgSteps: 1, Deviations: d}})
		reg(&explore.Suite{Name: fmt.Sprintf("cutlease3-d%d", d), Cfg: sim.Config{Voters: 3, Timed: true}, Seed: cutLeader, Monitors: leaseMonitors,
			Budget: sim.Budget{Writes: 2, LeaseReads: 2, Cuts: 1, Lags: 1, Steps: 14, Reorders: -1, MsgSteps: 1, Deviations: d}})
	}
	// S-termgap (C15): n1 is two terms ahead (it granted two real votes to n2, whose
	// replies were lost) but behind in the log; n2 is down; n0, the only electable
	// node, has restarted as a follower of term 1 and can learn the newer term only
	// from the answers to its own vote requests.
	termGap := append(append([]sim.Event{}, seedLeader3...), sim.MustParse(
		"cut n0 a=1", "write n0", "rt 0>2:AE#2", "rt 0>2:AE#3", "cut n0 a=2", "timeout n2", "rt 2>1:RV#0 a=2", "deliver 2>1:RV#1",
		"timeout n2", "deliver 2>1:RV#2 a=2", "crash n2", "crash n0", "restart n0", "drop 0>1:AE#2", "drop 0>1:AE#3")...)
	for d := 0; d <= 6; d++ {
		reg(&explore.Suite{Name: fmt.Sprintf("live-termgap3-d%d", d), Cfg: sim.Config{Voters: 3}, Seed: termGap, Leaf: monitor.Continuation(150),
			Budget: sim.Budget{Timeouts: 1, Elapses: 1, Writes: 1, Cuts: 1, Reorders: -1, Splits: 1, Deviations: d}})
	}
	// S-readd (C15, snapshots on): n2 holds a local snapshot (label 2) and has been
	// removed from the configuration (committed at index 4); a leader that adds it
	// again starts probing below n2's snapshot.
	readd := append(append([]sim.Event{}, seedLeader3...), sim.MustParse(
		"write n0", "rt 0>1:AE#2", "rt 0>2:AE#2", "remove n0 a=2", "rt 0>1:AE#3", "rt 0>2:AE#3", "rt 0>1:AE#4", "rt 0>2:AE#4", "beat n0")...)
	for d := 0; d <= 6; d++ {
		reg(&explore.Suite{Name: fmt.Sprintf("live-readd3-d%d", d), Cfg: sim.Config{Voters: 3, SnapAt: 2}, Seed: readd, Monitors: snapMonitors, Leaf: monitor.Continuation(150),
			Budget: sim.Budget{Timeouts: 1, Elapses: 1, Beats: 1, Writes: 1, Members: 1, Cuts: 1, Reorders: -1, Splits: 1, Deviations: d}})
	}
	// eager follower (C15): only n2 takes local snapshots, so its snapshot runs
	// ahead of what the leader still probes after reordered or late replies.
	for d := 0; d <= 6; d++ {
		reg(&explore.Suite{Name: fmt.Sprintf("live-eager3-d%d", d), Cfg: sim.Config{Voters: 3, SnapAt: 2, SnapNodes: []int{2}}, Seed: seedLeader3, Monitors: snapMonitors, Leaf: monitor.Continuation(150),
			Budget: sim.Budget{Timeouts: 1, Elapses: 1, Beats: 2, Writes: 2, Cuts: 1, Reorders: -1, Splits: 2, DropReplies: 2, Deviations: d}})
	}
	// one voter growing a cluster (C15): non-voters are added, crash, the voter restarts
	for d := 0; d <= 6; d++ {
		reg(&explore.Suite{Name: fmt.Sprintf("live-mem1-d%d", d), Cfg: sim.Config{Voters: 1, Spares: 1}, Monitors: memberMonitors, Classify: memberClassify, Leaf: monitor.Continuation(150),
			Budget: sim.Budget{Timeouts: 2, Elapses: 1, Beats: 1, Writes: 1, Members: 2, Crashes: 1, Restarts: 1, Reorders: -1, Splits: 1, Deviations: d}})
	}
	// C15: exploration families with the fault-free continuation evaluated on
	// every leaf (quick) or every distinct state (thorough, suffix "all").
	for d := 0; d <= 6; d++ {
		for _, all := range []bool{false, true} {
			sfx := ""
			if all {
				sfx = "all"
			}
			reg(&explore.Suite{Name: fmt.Sprintf("live-rep3%s-d%d", sfx, d), Cfg: sim.Config{Voters: 3, StoreHook: true}, Leaf: monitor.Continuation(150), LeafAll: all,
				Budget: sim.Budget{Timeouts: 3, Elapses: 3, Beats: 1, Writes: 2, Cuts: 1, Crashes: 1, Arms: 1, Restarts: 1, Reorders: -1, Splits: 1, Deviations: d}})
			reg(&explore.Suite{Name: fmt.Sprintf("live-snap3%s-d%d", sfx, d), Cfg: sim.Config{Voters: 3, SnapAt: 2, StoreHook: true, ArmDepth: 5}, Seed: seedLeader3, Monitors: snapMonitors, Leaf: monitor.Continuation(150), LeafAll: all,
				Budget: sim.Budget{Timeouts: 1, Elapses: 2, Beats: 2, Writes: 3, Cuts: 2, Crashes: 1, Arms: 1, Restarts: 1, Reorders: -1, Splits: 1, Deviations: d}})
			reg(&explore.Suite{Name: fmt.Sprintf("live-bigsnap3%s-d%d", sfx, d), Cfg: sim.Config{Voters: 3, SnapAt: 2, SnapPad: 33 * 1024}, Seed: seedLeader3, Monitors: snapMonitors, Leaf: monitor.Continuation(150), LeafAll: all,
				Budget: sim.Budget{Timeouts: 1, Elapses: 2, Beats: 2, Writes: 3, Cuts: 2, Crashes: 1, Restarts: 1, Reorders: -1, Splits: 1, Deviations: d}})
			reg(&explore.Suite{Name: fmt.Sprintf("live-mem3%s-d%d", sfx, d), Cfg: sim.Config{Voters: 3, Spares: 1}, Seed: seedLeader3, Monitors: memberMonitors, Classify: memberClassify, Leaf: monitor.Continuation(150), LeafAll: all,
				Budget: sim.Budget{Timeouts: 1, Elapses: 2, Beats: 1, Writes: 1, Members: 2, Cuts: 1, Reorders: -1, Splits: 1, Deviations: d}})
		}
	}
	// S-stalesuffix (3 voters, snapshots on): the deposed leader n0 holds two
	// uncommitted term-1 writes (indices 3,4); n1 leads term 2, has committed
	// its no-op and two writes with n2 and compacted its log behind a snapshot;
	// n0 is still cut off.
	staleSuffix := append(append([]sim.Event{}, seedLeader3...), sim.MustParse(
		"isolate n0", "write n0", "write n0", "timeout n1", "rt 1>2:RV#0 a=2", "rt 1>2:RV#1", "rt 1>2:AE#0", "rt 1>2:AE#1",
		"write n1", "rt 1>2:AE#2", "rt 1>2:AE#3", "write n1", "rt 1>2:AE#4", "rt 1>2:AE#5")...)
	for d := 0; d <= 6; d++ {
		reg(&explore.Suite{Name: fmt.Sprintf("stalesuffix3-d%d", d), Cfg: sim.Config{Voters: 3, SnapAt: 2}, Seed: staleSuffix, Monitors: snapMonitors,
			Budget: sim.Budget{Timeouts: 1, Elapses: 1, Beats: 3, Writes: 1, Cuts: 1, Reorders: -1, Splits: 1, Deviations: d}})
	}
	// S-oldlong (3 voters, no snapshots): the deposed leader n0 is cut off with two
	// pending (uncommitted) term-1 writes at indices 3,4; n1 leads term 2 and has
	// committed its no-op with n2. "Long old log versus short new log."
	oldLong := append(append([]sim.Event{}, seedLeader3...), sim.MustParse(
		"isolate n0", "write n0", "write n0", "timeout n1", "rt 1>2:RV#0 a=2", "rt 1>2:RV#1", "rt 1>2:AE#0", "rt 1>2:AE#1")...)
	for d := 0; d <= 6; d++ {
		reg(&explore.Suite{Name: fmt.Sprintf("oldlong3-d%d", d), Cfg: sim.Config{Voters: 3}, Seed: oldLong,
			Budget: sim.Budget{Timeouts: 2, Elapses: 3, Writes: 1, Cuts: 1, Crashes: 1, Reorders: -1, Deviations: d}})
		reg(&explore.Suite{Name: fmt.Sprintf("pending3-d%d", d), Cfg: sim.Config{Voters: 3}, Seed: oldLong,
			Budget: sim.Budget{Timeouts: 1, Elapses: 1, Beats: 1, Writes: 2, Cuts: 1, Reorders: -1, Splits: 1, ClientTimeouts: 1, Deviations: d}})
	}
	// snapshots, compaction, conflicts and restarts on the real file-backed storages
	for d := 0; d <= 6; d++ {
		reg(&explore.Suite{Name: fmt.Sprintf("filesnap3-d%d", d), Cfg: sim.Config{Voters: 3, SnapAt: 2, FileStore: true}, Seed: seedLeader3, Monitors: snapMonitors,
			Budget: sim.Budget{Timeouts: 2, Elapses: 2, Beats: 2, Writes: 3, Cuts: 2, Crashes: 1, Restarts: 1, Reorders: -1, Splits: 1, Deviations: d}})
	}
	for d := 0; d <= 6; d++ {
		reg(&explore.Suite{Name: fmt.Sprintf("filearmsnap3-d%d", d), Cfg: sim.Config{Voters: 3, SnapAt: 2, FileStore: true, ArmDepth: 6}, Seed: seedLeader3, Monitors: snapMonitors,
			Budget: sim.Budget{Timeouts: 2, Elapses: 2, Beats: 2, Writes: 3, Cuts: 1, Crashes: 1, Arms: 1, Restarts: 1, Reorders: -1, Splits: 1, Deviations: d}})
	}
	// real storages + slow Snapshot / Restore calls: a snapshot that is being written
	// coexists with readers of the snapshot storage
	for d := 0; d <= 6; d++ {
		reg(&explore.Suite{Name: fmt.Sprintf("fileslowsnap3-d%d", d), Cfg: sim.Config{Voters: 3, SnapAt: 2, FileStore: true, HoldFsm: "snapshot,restore"}, Seed: seedLeader3, Monitors: snapDurMonitors,
			Budget: sim.Budget{Timeouts: 1, Elapses: 1, Beats: 2, Writes: 3, Cuts: 2, Crashes: 1, Restarts: 1, Reorders: -1, Splits: 1, Deviations: d}})
	}
	// snapshots on (threshold 2): local snapshots, compaction, installation
	for d := 0; d <= 6; d++ {
		reg(&explore.Suite{Name: fmt.Sprintf("snap3-d%d", d), Cfg: sim.Config{Voters: 3, SnapAt: 2}, Seed: seedLeader3, Monitors: snapMonitors,
			Budget: sim.Budget{Timeouts: 2, Elapses: 2, Beats: 2, Writes: 3, Cuts: 2, Crashes: 1, Restarts: 1, Reorders: -1, Splits: 1, Deviations: d}})
		reg(&explore.Suite{Name: fmt.Sprintf("bigsnap3-d%d", d), Cfg: sim.Config{Voters: 3, SnapAt: 2, SnapPad: 33 * 1024}, Seed: seedLeader3, Monitors: snapMonitors,
			Budget: sim.Budget{Timeouts: 2, Elapses: 2, Beats: 2, Writes: 3, Cuts: 2, Crashes: 1, Restarts: 1, Reorders: -1, Splits: 1, Deviations: d}})
		reg(&explore.Suite{Name: fmt.Sprintf("memsnap3-d%d", d), Cfg: sim.Config{Voters: 3, Spares: 1, SnapAt: 2}, Seed: seedLeader3, Monitors: snapMonitors,
			Budget: sim.Budget{Timeouts: 1, Elapses: 1, Beats: 1, Writes: 2, Members: 1, Cuts: 1, Crashes: 1, Restarts: 1, Reorders: -1, Splits: 1, Deviations: d}})
	}
	// S-nonvoters with submissions (C03): the cut-off leader n0 reaches only the
	// two non-voters; n1 leads term 2 on the voters' side.
	for d := 0; d <= 6; d++ {
		reg(&explore.Suite{Name: fmt.Sprintf("nvwrite5-d%d", d), Cfg: sim.Config{Voters: 3, Spares: 2}, Seed: seedNonVoters,
			Budget: sim.Budget{Beats: 1, Writes: 2, Reorders: -1, Splits: 1, ClientTimeouts: 1, Deviations: d}})
	}
	// S-minority5, untimed (C05): leader n0 keeps only n1 (2 of 5 voters); n2 leads
	// term 2 with n3 and n4.
	minRead5 := append(append([]sim.Event{}, seedLeader5...), sim.MustParse("cut n0 a=2", "cut n0 a=3", "cut n0 a=4", "cut n1 a=2", "cut n1 a=3", "cut n1 a=4",
		"timeout n2", "rt 2>3:RV#0 a=2", "rt 2>4:RV#0 a=2", "rt 2>3:RV#1", "rt 2>4:RV#1", "rt 2>3:AE#0", "rt 2>4:AE#0", "rt 2>3:AE#1", "rt 2>4:AE#1")...)
	for d := 0; d <= 6; d++ {
		reg(&explore.Suite{Name: fmt.Sprintf("minread5-d%d", d), Cfg: sim.Config{Voters: 5}, Seed: minRead5,
			Budget: sim.Budget{Beats: 3, Writes: 1, Reads: 1, Reorders: -1, Splits: 1, Deviations: d}})
	}
	// slow state machine: taking a snapshot (and restoring one) takes environment time
	for d := 0; d <= 6; d++ {
		reg(&explore.Suite{Name: fmt.Sprintf("slowsnap3-d%d", d), Cfg: sim.Config{Voters: 3, SnapAt: 2, HoldFsm: "snapshot,restore"}, Seed: seedLeader3, Monitors: snapDurMonitors,
			Budget: sim.Budget{Timeouts: 2, Elapses: 2, Beats: 2, Writes: 3, Cuts: 2, Crashes: 1, Restarts: 1, Reorders: -1, Splits: 1, Deviations: d}})
	}
	// slow Apply: the apply loop releases the node lock while the application works
	for d := 0; d <= 6; d++ {
		reg(&explore.Suite{Name: fmt.Sprintf("slowapply3-d%d", d), Cfg: sim.Config{Voters: 3, HoldFsm: "apply"}, Seed: seedLeader3,
			Budget: sim.Budget{Timeouts: 2, Elapses: 2, Beats: 2, Writes: 2, Reads: 1, Cuts: 1, Crashes: 1, Restarts: 1, Reorders: -1, Splits: 1, ClientTimeouts: 1, Deviations: d}})
		reg(&explore.Suite{Name: fmt.Sprintf("slowapplysnap3-d%d", d), Cfg: sim.Config{Voters: 3, SnapAt: 2, HoldFsm: "apply,snapshot,restore"}, Seed: seedLeader3, Monitors: snapDurMonitors,
			Budget: sim.Budget{Timeouts: 1, Elapses: 1, Beats: 2, Writes: 3, Cuts: 2, Crashes: 1, Restarts: 1, Reorders: -1, Splits: 1, Deviations: d}})
	}
	// S-restoring: as S-stalesuffix, then the partition moves (n2 is cut off
	// instead of n0), stale messages are lost, and n0 has received the complete
	// snapshot of n1 and is inside Restore; a retransmission of the last chunk
	// is on its way.
	restoring := append(append([]sim.Event{}, staleSuffix...), sim.MustParse("heal", "isolate n2",
		"drop 0>1:AE#2", "drop 0>1:AE#3", "drop 0>2:AE#2", "drop 0>2:AE#3", "drop 1>0:RV#0", "drop 1>0:RV#1", "drop 1>0:AE#0", "drop 1>0:AE#1", "drop 1>0:AE#2", "drop 1>0:AE#3",
		"deliver 1>0:IS#0")...)
	for d := 0; d <= 6; d++ {
		reg(&explore.Suite{Name: fmt.Sprintf("restoring3-d%d", d), Cfg: sim.Config{Voters: 3, SnapAt: 2, HoldFsm: "restore"}, Seed: restoring, Monitors: snapDurMonitors,
			Budget: sim.Budget{Timeouts: 1, Elapses: 1, Beats: 2, Writes: 1, Cuts: 1, Crashes: 1, Reorders: -1, Splits: 1, Deviations: d}})
	}
	// slow state machine: Restore takes environment time (the lock is released meanwhile)
	for d := 0; d <= 6; d++ {
		reg(&explore.Suite{Name: fmt.Sprintf("slowrestore3-d%d", d), Cfg: sim.Config{Voters: 3, SnapAt: 2, HoldFsm: "restore"}, Seed: staleSuffix, Monitors: snapDurMonitors,
			Budget: sim.Budget{Timeouts: 1, Elapses: 1, Beats: 3, Writes: 1, Cuts: 1, Reorders: -1, Splits: 1, Deviations: d}})
	}
	for d := 0; d <= 6; d++ {
		reg(&explore.Suite{Name: fmt.Sprintf("nvread5-d%d", d), Cfg: sim.Config{Voters: 3, Spares: 2}, Seed: seedNonVoters, Monitors: memberMonitors,
			Budget: sim.Budget{Beats: 1, Writes: 1, Reads: 1, Reorders: -1, Splits: 1, Deviations: d}})
	}
	// small unbounded spaces (no deviation bound): every order within the budgets
	reg(&explore.Suite{Name: "all2", Cfg: sim.Config{Voters: 2},
		Budget: sim.Budget{Timeouts: 3, Elapses: 3, Beats: 1, Writes: 1, Reorders: -1, Splits: 1, Deviations: -1}})
	reg(&explore.Suite{Name: "all1", Cfg: sim.Config{Voters: 1, StoreHook: true},
		Budget: sim.Budget{Timeouts: 3, Elapses: 1, Beats: 2, Writes: 3, Reorders: -1, Crashes: 2, Arms: 2, Restarts: 2, Deviations: -1}})
}
