package main

import (
	"verif/mc/explore"
	"verif/mc/monitor"
	"verif/mc/sim"
)

func safetyMonitors() []monitor.Monitor {
	return []monitor.Monitor{&monitor.Apply{}, &monitor.Leader{}, &monitor.Commit{}, &monitor.LogMatch{}, &monitor.TermVote{}}
}

var suites = map[string]*explore.Suite{}

func reg(s *explore.Suite) *explore.Suite {
	if s.Monitors == nil {
		s.Monitors = safetyMonitors
	}
	suites[s.Name] = s
	return s
}

func lookupSuite(name string) *explore.Suite { return suites[name] }

func init() {
	for d := 0; d <= 4; d++ {
		reg(&explore.Suite{Name: "dv3-" + string(rune('0'+d)), Cfg: sim.Config{Voters: 3},
			Budget: sim.Budget{Timeouts: 3, Elapses: 3, Beats: 2, Writes: 2, Reorders: -1, Splits: 2, Deviations: d}})
	}
	reg(&explore.Suite{Name: "dev3", Cfg: sim.Config{Voters: 3},
		Budget: sim.Budget{Timeouts: 2, Elapses: 2, Beats: 1, Writes: 1, Reorders: 0, Splits: 1, Deviations: -1}})
	reg(&explore.Suite{Name: "dev3b", Cfg: sim.Config{Voters: 3},
		Budget: sim.Budget{Timeouts: 3, Elapses: 3, Beats: 2, Writes: 2, Reorders: 1, Splits: 1, Deviations: -1}})
	reg(&explore.Suite{Name: "dev2", Cfg: sim.Config{Voters: 2},
		Budget: sim.Budget{Timeouts: 3, Elapses: 3, Beats: 2, Writes: 2, Reorders: 1, Splits: 2, Crashes: 1, Restarts: 1, Deviations: -1}})
}
