//go:build race

package main

import "verif/mc/sched"

const raceEnabled = true

func init() {
	sched.RaceMode = true
	sched.AfterRun = raceAfterRun
}
