package main

// C11, HANDLER engine: every sequence of InstallSnapshot chunk requests of a
// bounded domain (two snapshots of one sender history, 1-3 chunks each, any
// order, duplicates, wrong offsets, terms lower/equal/higher) against follower
// states with logs shorter / longer / conflicting / matching at the snapshot
// boundaries and commit indices below / at the labels, on a real node booted
// from preloaded storage; followed by probes and a catch-up by the legitimate
// leader.

import (
	"encoding/json"
	"fmt"
	"os"
	"time"

	"github.com/jmsadair/raft"
	"verif/mc/common"
	"verif/mc/explore"
	"verif/mc/sim"
)

// sender history H: index -> term (index 1 is the configuration, term 1)
var c11H = []uint64{0, 1, 1, 2, 2, 2, 3} // indices 0..6
const c11Last = 6

func c11Data(i, t uint64) string { return fmt.Sprintf("%d.%d", i, t) }

func c11Entry(i, t uint64) raft.LogEntry {
	if i == 1 {
		return raft.LogEntry{Index: 1, Term: 1, EntryType: raft.ConfigurationEntry, Data: sim.ConfData(3, 1)}
	}
	return raft.LogEntry{Index: i, Term: t, EntryType: raft.OperationEntry, Data: []byte(c11Data(i, t))}
}

func c11List(label uint64) []sim.Applied {
	var l []sim.Applied
	for i := uint64(2); i <= label; i++ {
		l = append(l, sim.Applied{Index: i, Term: c11H[i], Data: c11Data(i, c11H[i])})
	}
	return l
}

type c11Snap struct {
	Label uint64
	Bytes []byte
}

var c11Snaps = map[string]c11Snap{"S1": {3, nil}, "S2": {5, nil}}

func init() {
	for k, s := range c11Snaps {
		s.Bytes = sim.EncodeList(c11List(s.Label), 0)
		c11Snaps[k] = s
	}
}

type c11State struct {
	Name   string   `json:"name"`
	Terms  []uint64 `json:"terms"` // follower entries at index 2.. (index 1 = configuration)
	Commit uint64   `json:"commit"`
	FT     uint64   `json:"term"`
}

type c11Req struct {
	Snap   string `json:"snap"`
	Cuts   int    `json:"cuts"`  // snapshot cut into this many chunks
	Chunk  int    `json:"chunk"` // which one
	DTerm  int    `json:"dterm"` // request term = follower term + DTerm
	BadOff bool   `json:"bad_offset,omitempty"`
}

type c11Case struct {
	State c11State `json:"state"`
	Reqs  []c11Req `json:"requests"`
}

func c11States() []c11State {
	var out []c11State
	logs := []struct {
		name  string
		terms []uint64
		agree uint64 // longest prefix (index) agreeing with H
	}{
		{"short", []uint64{1}, 2},
		{"mid-match", []uint64{1, 2, 2}, 4},
		{"mid-conflict", []uint64{1, 1, 1}, 2},
		{"long-match", []uint64{1, 2, 2, 2, 3}, 6},
		{"long-conflict-at-S2", []uint64{1, 2, 2, 1, 1}, 4},
		{"longer-stale", []uint64{1, 1, 1, 1, 1, 1}, 2},
	}
	for _, l := range logs {
		for _, c := range []uint64{1, 2, 3, 4, 5} {
			if c > l.agree {
				continue
			}
			for _, ft := range []uint64{3} {
				out = append(out, c11State{Name: fmt.Sprintf("%s/commit%d", l.name, c), Terms: l.terms, Commit: c, FT: ft})
			}
		}
	}
	return out
}

func c11Menu(tier string) []c11Req {
	var out []c11Req
	for _, sn := range []string{"S1", "S2"} {
		cutsList := []int{1, 2}
		if sn == "S2" && tier == "thorough" {
			cutsList = []int{1, 2, 3}
		}
		for _, cuts := range cutsList {
			for ch := 0; ch < cuts; ch++ {
				out = append(out, c11Req{Snap: sn, Cuts: cuts, Chunk: ch})
			}
		}
	}
	out = append(out, c11Req{Snap: "S1", Cuts: 1, Chunk: 0, DTerm: 1}, c11Req{Snap: "S2", Cuts: 2, Chunk: 1, DTerm: 1},
		c11Req{Snap: "S2", Cuts: 1, Chunk: 0, DTerm: -1}, c11Req{Snap: "S1", Cuts: 2, Chunk: 1, BadOff: true}, c11Req{Snap: "S2", Cuts: 2, Chunk: 0, BadOff: true})
	return out
}

func (rq c11Req) build(term uint64) raft.InstallSnapshotRequest {
	sn := c11Snaps[rq.Snap]
	n := len(sn.Bytes)
	lo := n * rq.Chunk / rq.Cuts
	hi := n * (rq.Chunk + 1) / rq.Cuts
	off := int64(lo)
	if rq.BadOff {
		off += 3
	}
	return raft.InstallSnapshotRequest{LeaderID: "n1", Term: uint64(int64(term) + int64(rq.DTerm)), LastIncludedIndex: sn.Label, LastIncludedTerm: c11H[sn.Label],
		Configuration: sim.ConfData(3, 1), Bytes: sn.Bytes[lo:hi], Offset: off, Done: rq.Chunk == rq.Cuts-1}
}

func c11Boot(st c11State) *sim.Cluster {
	p := sim.Preload{Peers: 3, Term: st.FT, HasState: true}
	p.Entries = append(p.Entries, c11Entry(1, 1))
	for k, t := range st.Terms {
		p.Entries = append(p.Entries, c11Entry(uint64(k+2), t))
	}
	c := sim.NewSingle(p, sim.Budget{})
	last := uint64(len(st.Terms) + 1)
	if st.Commit > 0 {
		lt := uint64(1)
		if last >= 2 {
			lt = st.Terms[last-2]
		}
		c.Inject(1, "AE", func(m *sim.Msg) {
			m.AE = raft.AppendEntriesRequest{LeaderID: "n1", Term: st.FT, PrevLogIndex: last, PrevLogTerm: lt, LeaderCommit: st.Commit}
		})
	}
	return c
}

// runC11 executes a case and returns (signature, detail).
func runC11(cs c11Case) (string, string, string) {
	c := c11Boot(cs.State)
	defer c.Teardown()
	n := c.Nodes[0]
	applied0 := len(c.Fsm)
	_ = applied0
	problems := func(when string) (string, string) {
		if len(c.Problems) > 0 {
			return "panic", when + ": " + c.Problems[0]
		}
		if n.Fatal != "" {
			return "fatal", when + ": the library terminated the process (" + n.Fatal + ")"
		}
		return "", ""
	}
	checkApplied := func(when string) (string, string) {
		// everything ever handed to the state machine must be the sender's history
		for _, f := range c.Fsm {
			if f.Kind == "apply" {
				if f.Index > c11Last || f.Term != c11H[f.Index] || f.Data != c11Data(f.Index, c11H[f.Index]) {
					return "applied-entry-not-in-sender-history", fmt.Sprintf("%s: state machine was handed (%d, term %d, %q); the committed history has term %d there", when, f.Index, f.Term, f.Data, c11H[min64(f.Index, c11Last)])
				}
			}
		}
		// the live state machine must hold a gap-free, duplicate-free prefix of H
		for k, a := range n.Fsm.List {
			want := uint64(k + 2)
			if a.Index != want || a.Term != c11H[want] {
				return "state-machine-not-a-prefix-of-history", fmt.Sprintf("%s: state machine position %d holds (%d, term %d), history has (%d, term %d)", when, k, a.Index, a.Term, want, c11H[want])
			}
		}
		// visible snapshots: bytes must be one of the sender's snapshots and match their own label
		for _, sn := range n.Sn.Snaps {
			ok := false
			for _, s := range c11Snaps {
				if string(s.Bytes) == string(sn.Data) && s.Label == sn.Meta.LastIncludedIndex && sn.Meta.LastIncludedTerm == c11H[s.Label] {
					ok = true
				}
			}
			if !ok {
				other := ""
				for name, s := range c11Snaps {
					if string(s.Bytes) == string(sn.Data) {
						other = ":bytes-of-" + name + "-under-other-label"
					}
				}
				if other == "" {
					other = ":bytes-of-no-sender-snapshot"
				}
				return "installed-snapshot-differs-from-sender" + other, fmt.Sprintf("%s: visible snapshot labelled (%d, term %d) holds %d bytes that are not the sender's snapshot of that label", when, sn.Meta.LastIncludedIndex, sn.Meta.LastIncludedTerm, len(sn.Data))
			}
		}
		return "", ""
	}
	v0, _ := c.View(0)
	for i, rq := range cs.Reqs {
		before, _ := c.View(0)
		snapsBefore := len(n.Sn.Snaps)
		req := rq.build(v0.Term)
		c.Inject(1, "IS", func(m *sim.Msg) { m.IS = req })
		when := fmt.Sprintf("request %d (%+v)", i, rq)
		if s, d := problems(when); s != "" {
			return s, d, ""
		}
		after, _ := c.View(0)
		if after.CommitIndex < before.CommitIndex {
			return "commit-index-decreased", fmt.Sprintf("%s: commit index %d -> %d", when, before.CommitIndex, after.CommitIndex), ""
		}
		if after.LastApplied < before.LastApplied {
			return "applied-index-decreased", fmt.Sprintf("%s: applied index %d -> %d", when, before.LastApplied, after.LastApplied), ""
		}
		if after.Term < before.Term {
			return "term-decreased", fmt.Sprintf("%s: term %d -> %d", when, before.Term, after.Term), ""
		}
		for _, sn := range n.Sn.Snaps[snapsBefore:] {
			if sn.Meta.LastIncludedIndex < before.LastApplied {
				return "installed-snapshot-older-than-applied", fmt.Sprintf("%s: snapshot labelled %d became visible although index %d was already applied", when, sn.Meta.LastIncludedIndex, before.LastApplied), ""
			}
		}
		// committed entries beyond an installed label must still be in the log
		for idx := after.LastIncludedIndex + 1; idx <= before.CommitIndex; idx++ {
			found := false
			for _, e := range n.Log.Entries[1:] {
				if e.Index == idx && e.Term == c11H[idx] {
					found = true
				}
			}
			if !found {
				return "committed-entry-beyond-label-lost", fmt.Sprintf("%s: committed entry %d is no longer in the log (snapshot label %d)", when, idx, after.LastIncludedIndex), ""
			}
		}
		if s, d := checkApplied(when); s != "" {
			return s, d, ""
		}
		// the log's boundary (placeholder) entry stands for a committed entry of the sender's history
		if ph := n.Log.Entries[0]; ph.Index >= 1 && ph.Index <= c11Last && ph.Term != c11H[ph.Index] {
			return "log-boundary-term-wrong", fmt.Sprintf("%s: the log now starts behind (%d, term %d) but entry %d of the committed history has term %d", when, ph.Index, ph.Term, ph.Index, c11H[ph.Index]), ""
		}
		if after.LastIncludedIndex >= 1 && after.LastIncludedIndex <= c11Last && after.LastIncludedTerm != c11H[after.LastIncludedIndex] && after.LastIncludedIndex != before.LastIncludedIndex {
			return "snapshot-boundary-term-wrong", fmt.Sprintf("%s: snapshot boundary is (%d, term %d), history has term %d", when, after.LastIncludedIndex, after.LastIncludedTerm, c11H[after.LastIncludedIndex]), ""
		}
	}
	// probes: the node must answer like a node holding the full log
	v, _ := c.View(0)
	es := n.Log.Entries
	lastIdx, lastTerm := es[len(es)-1].Index, es[len(es)-1].Term
	if lastIdx < v.LastIncludedIndex {
		return "snapshot-beyond-log", fmt.Sprintf("after the sequence the snapshot boundary %d is beyond the log's last index %d", v.LastIncludedIndex, lastIdx), ""
	}
	term := v.Term
	rv := func(li, lt uint64) bool {
		m := c.Inject(2, "RV", func(m *sim.Msg) {
			m.RV = raft.RequestVoteRequest{CandidateID: "n2", Term: term + 1, LastLogIndex: li, LastLogTerm: lt, Prevote: true}
		})
		return m.RVr.VoteGranted
	}
	c.Apply(sim.Event{K: "elapse", N: 0})
	c.B.FreeElapses = 10
	c.Apply(sim.Event{K: "elapse", N: 0})
	if !rv(lastIdx, lastTerm) {
		return "vote-probe:equal-log-rejected", fmt.Sprintf("a prevote for a candidate whose log ends exactly like the node's (%d, term %d) was rejected", lastIdx, lastTerm), ""
	}
	if lastIdx > 1 && rv(lastIdx-1, lastTerm) {
		return "vote-probe:shorter-log-granted", fmt.Sprintf("a prevote for a candidate with a shorter log (%d, term %d) than the node's (%d, term %d) was granted", lastIdx-1, lastTerm, lastIdx, lastTerm), ""
	}
	if s, d := problems("vote probes"); s != "" {
		return s, d, ""
	}
	// catch-up by the legitimate leader of term+1 holding history H: back off like the real sender
	// Half of the cases start the probe at the end of the leader's log (a freshly
	// elected leader), the other half at the beginning with a leader that holds
	// the full log and no snapshot (its next index for this node was pushed down
	// by a stale rejection): the conflict hints alone must lead it to success.
	prev := uint64(c11Last)
	leaderHasSnapshot := true
	if (len(cs.Reqs)+int(cs.State.Commit))%2 == 1 {
		prev, leaderHasSnapshot = 1, false
	}
	for round := 0; round < 12; round++ {
		req := raft.AppendEntriesRequest{LeaderID: "n1", Term: term + 1, PrevLogIndex: prev, PrevLogTerm: c11H[prev], LeaderCommit: c11Last}
		for i := prev + 1; i <= c11Last; i++ {
			e := c11Entry(i, c11H[i])
			req.Entries = append(req.Entries, &e)
		}
		m := c.Inject(1, "AE", func(m *sim.Msg) { m.AE = req })
		if s, d := problems("catch-up"); s != "" {
			return s, d, ""
		}
		if m.State != sim.MDone && m.State != sim.MHandled {
			break
		}
		if m.AEr.Success {
			break
		}
		vv, _ := c.View(0)
		next := m.AEr.Index
		if !leaderHasSnapshot {
			if next == 0 || next > c11Last+1 {
				break
			}
			prev = next - 1
			continue
		}
		if next <= vv.LastIncludedIndex || next == 0 {
			// the real leader would send its newest snapshot (S2) now
			for _, rq := range []c11Req{{Snap: "S2", Cuts: 1, Chunk: 0, DTerm: 1}} {
				req := rq.build(term)
				c.Inject(1, "IS", func(m *sim.Msg) { m.IS = req })
			}
			prev = c11Snaps["S2"].Label
			continue
		}
		prev = next - 1
	}
	if s, d := checkApplied("after catch-up"); s != "" {
		return s, d, ""
	}
	vEnd, _ := c.View(0)
	outcome := fmt.Sprintf("applied=%d label=%d log=%d", vEnd.LastApplied, vEnd.LastIncludedIndex, len(n.Log.Entries)-1)
	if vEnd.LastApplied != c11Last || len(n.Fsm.List) != c11Last-1 {
		blocked := false
		for _, m := range c.Net.Msgs {
			if m.Kind == "IS" && m.State == sim.MHandling {
				blocked = true
			}
		}
		sig := "catch-up-incomplete"
		if blocked {
			sig = "catch-up-incomplete:install-handler-still-blocked"
		}
		return sig, fmt.Sprintf("the legitimate leader could not bring the node to its history: applied %d of %d, state machine holds %d operations, snapshot label %d", vEnd.LastApplied, c11Last, len(n.Fsm.List), vEnd.LastIncludedIndex), outcome
	}
	return "", "", outcome
}

func min64(a uint64, b int) uint64 {
	if a < uint64(b) {
		return a
	}
	return uint64(b)
}

type c11Result struct {
	Cases    int            `json:"cases"`
	Requests int            `json:"requests"`
	Outcomes map[string]int `json:"outcomes"`
	Fails    []c11Fail      `json:"fails"`
	Deadline bool           `json:"deadline"`
}

type c11Fail struct {
	Sig    string  `json:"sig"`
	Detail string  `json:"detail"`
	Case   c11Case `json:"case"`
}

func c11Cases(tier string) []c11Case {
	menu := c11Menu(tier)
	maxLen := 3
	if tier == "thorough" {
		maxLen = 4
	}
	var out []c11Case
	for _, st := range c11States() {
		var rec func(cur []c11Req)
		rec = func(cur []c11Req) {
			out = append(out, c11Case{State: st, Reqs: append([]c11Req(nil), cur...)})
			if len(cur) == maxLen {
				return
			}
			for _, r := range menu {
				rec(append(cur, r))
			}
		}
		rec(nil)
	}
	return out
}

func c11Worker() {
	tier := os.Args[2]
	var shard, n int
	var dl int64
	fmt.Sscan(os.Args[3], &dl)
	fmt.Sscan(os.Args[4], &shard)
	fmt.Sscan(os.Args[5], &n)
	res := c11Result{Outcomes: map[string]int{}}
	seen := map[string]int{}
	for i, cs := range c11Cases(tier) {
		if i%n != shard {
			continue
		}
		if i%64 == 0 && time.Now().UnixNano() > dl {
			res.Deadline = true
			break
		}
		sig, detail, outcome := runC11(cs)
		res.Cases++
		res.Requests += len(cs.Reqs)
		if sig != "" {
			if old, ok := seen[sig]; !ok || len(cs.Reqs) < old {
				if ok {
					for k := range res.Fails {
						if res.Fails[k].Sig == sig {
							res.Fails[k] = c11Fail{sig, detail, cs}
						}
					}
				} else {
					res.Fails = append(res.Fails, c11Fail{sig, detail, cs})
				}
				seen[sig] = len(cs.Reqs)
			}
			res.Outcomes["fail:"+sig]++
		} else {
			res.Outcomes[outcome]++
		}
	}
	b, _ := json.Marshal(&res)
	os.Stdout.Write(b)
}

func init() {
	checks["C11"] = func(prop, tier string) int {
		t0 := time.Now()
		rep := common.NewReport(prop)
		secs := 240
		if tier == "thorough" {
			secs = 1200
		}
		outs, err := explore.RunShards([]string{"c11worker", tier, fmt.Sprint(time.Now().Add(time.Duration(secs) * time.Second).UnixNano())}, 0)
		if err != nil {
			fmt.Println("INFRA:", err)
			return 2
		}
		total := c11Result{Outcomes: map[string]int{}}
		best := map[string]c11Fail{}
		for _, o := range outs {
			var r c11Result
			if err := json.Unmarshal(o, &r); err != nil {
				fmt.Println("INFRA: bad shard output:", err)
				return 2
			}
			total.Cases += r.Cases
			total.Requests += r.Requests
			total.Deadline = total.Deadline || r.Deadline
			for k, v := range r.Outcomes {
				total.Outcomes[k] += v
			}
			for _, f := range r.Fails {
				if old, ok := best[f.Sig]; !ok || len(f.Case.Reqs) < len(old.Case.Reqs) {
					best[f.Sig] = f
				}
			}
		}
		reported := map[string]bool{}
		for _, f := range best {
			for i := 0; i < 3; i++ {
				if s, _, _ := runC11(f.Case); s != f.Sig {
					fmt.Printf("INFRA: case failed with %q then %q\n", f.Sig, s)
					return 2
				}
			}
			reported[f.Sig] = true
			params, _ := json.Marshal(f.Case)
			rep.Add(&common.Violation{Property: prop, Signature: f.Sig, Detail: f.Detail}, &common.Replay{Engine: "handler-is", Suite: f.Case.State.Name, Params: params})
		}
		if total.Cases == 0 {
			fmt.Println("INFRA: no case executed")
			return 2
		}
		cl := []plan{{"snap3-d2", 80}, {"stalesuffix3-d2", 65}, {"restoring3-d3", 60}, {"slowrestore3-d2", 30}, {"filesnap3-d2", 60}}
		if tier == "thorough" {
			cl = []plan{{"snap3-d3", 500}, {"bigsnap3-d2", 200}, {"stalesuffix3-d3", 300}, {"restoring3-d4", 400}, {"slowrestore3-d3", 300}}
		}
		// an installation that loses acknowledged or committed entries shows as a C04 / C07 violation
		cc, ex, code := runClusterPlansAlso(prop, cl, rep, reported, []string{"C04", "C07", "C14"})
		if code != 0 {
			return code
		}
		distinct := 0
		for k := range total.Outcomes {
			_ = k
			distinct++
		}
		all := c11Cases(tier)
		cov := map[string]any{"evaluations": total.Cases, "distinct_nontrivial": distinct,
			"rule":    "every sequence of up to 3 (quick) / 4 (thorough) InstallSnapshot requests from the menu (two snapshots S1<S2 of one sender history cut into 1-2(3) chunks, every chunk, plus higher/lower-term and wrong-offset variants) against every follower state (6 log shapes x commit indices consistent with the sender history); after each request: commit/applied/term monotone, no snapshot older than applied, committed entries beyond the label kept, applied entries and state machine content equal the sender history, visible snapshot bytes equal the sender's snapshot of that label; then vote probes at the log end and a catch-up by the legitimate leader that must bring the node exactly to the sender history; distinct_nontrivial = distinct (final applied, label, log size) outcomes and failure classes",
			"samples": []any{all[1], all[len(all)/2], all[len(all)-1]}, "requests": total.Requests, "states": len(c11States()), "menu": len(c11Menu(tier)), "outcomes": total.Outcomes, "exhaustive": !total.Deadline && ex}
		for k, v := range cc {
			cov[k] = v
		}
		ev := &common.Evidence{PropertyID: prop, Tier: tier, Seed: common.Seed(), Level: "exploration", Coverage: cov, WallS: time.Since(t0).Seconds(), Violations: len(rep.Violations),
			Assumptions: []string{"one sender history of 6 entries over 3 terms; the differential twin of the design is replaced by the catch-up oracle (a legitimate leader must be able to bring the node to exactly its history) plus vote probes at the log end"}}
		if err := ev.Write(); err != nil {
			fmt.Println("INFRA:", err)
			return 2
		}
		fmt.Printf("C11 %s: cases=%d requests=%d outcomes=%d exhaustive=%t wall=%.1fs\n", tier, total.Cases, total.Requests, distinct, !total.Deadline && ex, time.Since(t0).Seconds())
		return rep.Finish()
	}
	replayers["handler-is"] = func(r *common.Replay, path string) int {
		var cs c11Case
		if err := json.Unmarshal(r.Params, &cs); err != nil {
			fmt.Println("INFRA:", err)
			return 2
		}
		sig, detail, outcome := runC11(cs)
		if sig == "" {
			fmt.Println("replay finished without a violation:", outcome)
			return 0
		}
		fmt.Printf("VIOLATION property=C11 replay=%s signature=%q detail=%q\n", path, sig, detail)
		return 1
	}
}
