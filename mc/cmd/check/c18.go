package main

// C18, API engine: every sequence of public API calls up to a length bound, in
// every base node state, on the real code under the controlled scheduler.

import (
	"encoding/json"
	"fmt"
	"os"
	"strings"
	"time"

	"github.com/jmsadair/raft"
	"verif/mc/common"
	"verif/mc/explore"
	"verif/mc/sim"
)

type apiBase struct {
	Name   string
	Cfg    sim.Config
	Prefix []sim.Event
	Target int
}

var apiBases []apiBase

var apiMenu = []string{
	"Status", "Configuration", "StateString", "OpTypeString:0", "OpTypeString:1", "OpTypeString:2",
	"Start", "Restart", "Stop", "Bootstrap:ok", "Bootstrap:noself",
	"Submit:0:data:long", "Submit:0:nil:long", "Submit:1:data:long", "Submit:2:data:long", "Submit:99:data:long", "Submit:0:data:zero",
	"Add:3:nonvoter", "Add:3:voter", "Add:2:voter", "Add:empty:voter", "Remove:2", "Remove:stranger", "Remove:self",
}

func init() {
	cfg := sim.Config{Voters: 3, Spares: 1, Cold: true}
	p := func(s ...string) []sim.Event { return sim.MustParse(s...) }
	lead := seedLeader3
	with := func(a []sim.Event, s ...string) []sim.Event { return append(append([]sim.Event{}, a...), p(s...)...) }
	apiBases = []apiBase{
		{"never-started", cfg, lead, 3},
		{"follower", cfg, lead, 1},
		{"leader", cfg, lead, 0},
		{"leader-before-first-commit", cfg, p("timeout n0", "rt 0>1:RV#0 a=2", "rt 0>2:RV#0 a=2", "rt 0>1:RV#1"), 0},
		{"pre-candidate", cfg, with(lead, "timeout n1"), 1},
		{"candidate", cfg, with(lead, "timeout n1", "rt 1>2:RV#0 a=2"), 1},
		{"stopped", cfg, with(lead, "api n1 Stop"), 1},
		{"stopped-then-restarted", cfg, with(lead, "api n1 Stop", "api n1 Restart"), 1},
		{"removed", cfg, with(lead, "api n0 Remove:1", "rt 0>1:AE#2", "rt 0>2:AE#2", "rt 0>2:AE#3"), 1},
	}
}

type apiCase struct {
	Base  string   `json:"base"`
	Calls []string `json:"calls"`
	Par   bool     `json:"concurrent,omitempty"`
}

type apiOutcome struct {
	Sig    string
	Detail string
	Digest string
}

func findBase(name string) *apiBase {
	for i := range apiBases {
		if apiBases[i].Name == name {
			return &apiBases[i]
		}
	}
	return nil
}

// runAPICase executes one case and evaluates the oracle.
func runAPICase(cs apiCase) apiOutcome {
	b := findBase(cs.Base)
	budget := sim.Budget{Timeouts: 2, Elapses: 4, Beats: 2, Reorders: -1, Deviations: -1}
	c := sim.New(b.Cfg, sim.Budget{Timeouts: 99, Elapses: 99, Beats: 99, Reorders: -1, Deviations: -1, Members: 99, Writes: 99, Reads: 99, LeaseReads: 99})
	defer c.Teardown()
	fail := func(sig, detail string) apiOutcome { return apiOutcome{Sig: sig, Detail: detail} }
	problems := func(when string) *apiOutcome {
		if len(c.Problems) > 0 {
			p := c.Problems[0]
			sig := "panic"
			if strings.Contains(p, "livelock") {
				sig = "livelock"
			} else {
				// classify by the panic message and the innermost library frame
				first := strings.SplitN(p, "\n", 2)[0]
				if i := strings.Index(first, ": "); i >= 0 {
					first = first[i+2:]
				}
				sig = "panic:" + first
				for _, l := range strings.Split(p, "\n") {
					l = strings.TrimSpace(l)
					if strings.HasPrefix(l, "github.com/jmsadair/raft.") && !strings.Contains(l, "verifshim") {
						sig += "@" + strings.SplitN(strings.TrimPrefix(l, "github.com/jmsadair/raft."), "(0x", 2)[0]
						break
					}
				}
			}
			o := fail(sig, when+": "+p)
			return &o
		}
		for _, n := range c.Nodes {
			if n.Fatal != "" {
				o := fail("process-exit", fmt.Sprintf("%s: n%d: the library terminated the process (%s)", when, n.Idx, n.Fatal))
				return &o
			}
		}
		for _, r := range c.API {
			if !r.Done {
				o := fail("api-call-hangs:"+strings.SplitN(r.Call, ":", 2)[0], fmt.Sprintf("%s: call %s on n%d never returned although the system is quiescent", when, r.Call, r.Node))
				return &o
			}
		}
		return nil
	}
	for _, e := range b.Prefix {
		if err := c.Apply(e); err != nil {
			panic(fmt.Sprintf("INFRA: base %s: %v: %v", b.Name, e, err))
		}
	}
	if o := problems("base state " + b.Name); o != nil {
		o.Sig = "base:" + o.Sig
		return *o
	}
	c.B = budget
	var evs []sim.Event
	for _, call := range cs.Calls {
		evs = append(evs, sim.Event{K: "api", N: b.Target, S: call})
	}
	if cs.Par {
		if err := c.ApplyPar(evs); err != nil {
			return fail("infra", err.Error())
		}
		if o := problems("concurrent calls"); o != nil {
			return *o
		}
	} else {
		for _, e := range evs {
			if err := c.Apply(e); err != nil {
				return fail("infra", err.Error())
			}
			if o := problems("after " + e.S); o != nil {
				return *o
			}
		}
	}
	// epilogue: let the cluster run on (default events) so that delayed
	// consequences surface: background loops of a restarted node, commits of
	// submitted changes, election timeouts.
	for i := 0; i < 60; i++ {
		ev := c.Enabled()
		if len(ev) == 0 {
			break
		}
		if err := c.Apply(ev[0]); err != nil {
			break
		}
		if o := problems(fmt.Sprintf("epilogue event %d (%s)", i, ev[0])); o != nil {
			return *o
		}
	}
	// the target's own election timeout, if it can fire
	for _, n := range c.Nodes {
		if n.Alive && n.R != nil {
			_ = c.Apply(sim.Event{K: "timeout", N: n.Idx})
			if o := problems(fmt.Sprintf("election timeout on n%d", n.Idx)); o != nil {
				return *o
			}
		}
	}
	for i := 0; i < 30; i++ {
		ev := c.Enabled()
		if len(ev) == 0 {
			break
		}
		if err := c.Apply(ev[0]); err != nil {
			break
		}
		if o := problems(fmt.Sprintf("epilogue event %d (%s)", 60+i, ev[0])); o != nil {
			return *o
		}
	}
	// membership futures: a change that committed while the submitter stayed
	// leader must have resolved successfully with the new configuration
	for _, op := range c.Ops {
		if op.CfFut == nil {
			continue
		}
		v, ok := c.View(op.Node)
		if !ok || v.State != raft.Leader || !v.HasCommitted || !v.HasConfiguration {
			continue
		}
		if v.Committed.Index != v.Configuration.Index {
			continue
		}
		_, member := v.Committed.Members[op.TargetID]
		want := op.Kind == "add"
		reflects := member == want && (!want || v.Committed.IsVoter[op.TargetID] == op.Voter)
		if op.Resolved && op.Err == nil {
			_, m2 := op.Conf.Members[op.TargetID]
			if m2 != want {
				return fail("membership-future-wrong-configuration", fmt.Sprintf("%s %s resolved with %s", op.Kind, op.TargetID, sim.CanonConfiguration(&op.Conf)))
			}
			continue
		}
		if !op.Resolved && reflects {
			return fail("membership-future-unresolved-after-commit", fmt.Sprintf("%s %s submitted to n%d committed (configuration %s) while n%d stayed leader, but its future never resolved", op.Kind, op.TargetID, op.Node, sim.CanonConfiguration(v.Committed), op.Node))
		}
	}
	// ... and must not have been refused
	if op := c.RefusedCommittedChange(); op != nil {
		return fail("membership-future-refused-after-commit", fmt.Sprintf("%s %s submitted to the leader n%d resolved with %q although the change committed on n%d within the same term %d", op.Kind, op.TargetID, op.Node, op.Err, op.Node, op.SubTerm))
	}
	k := c.Key(nil)
	return apiOutcome{Digest: fmt.Sprintf("%x", k[:8])}
}

type apiShardResult struct {
	Cases    int            `json:"cases"`
	Outcomes map[string]int `json:"outcomes"`
	Fails    []apiFail      `json:"fails"`
	Deadline bool           `json:"deadline"`
}

type apiFail struct {
	Sig    string  `json:"sig"`
	Detail string  `json:"detail"`
	Case   apiCase `json:"case"`
}

func apiCases(tier string) []apiCase {
	var out []apiCase
	for _, b := range apiBases {
		for _, a := range apiMenu {
			out = append(out, apiCase{Base: b.Name, Calls: []string{a}})
		}
	}
	for _, b := range apiBases {
		for _, a := range apiMenu {
			for _, a2 := range apiMenu {
				out = append(out, apiCase{Base: b.Name, Calls: []string{a, a2}})
			}
		}
	}
	// concurrent pairs (canonical interleaving of the two call goroutines with
	// the node's own activity)
	for _, b := range apiBases {
		for i, a := range apiMenu {
			for _, a2 := range apiMenu[i:] {
				out = append(out, apiCase{Base: b.Name, Calls: []string{a, a2}, Par: true})
			}
		}
	}
	lifecycle := []string{"Start", "Restart", "Stop", "Bootstrap:ok", "Submit:0:data:long", "Add:3:voter", "Remove:self", "StateString"}
	for _, b := range apiBases {
		for _, a := range lifecycle {
			for _, a2 := range lifecycle {
				for _, a3 := range apiMenu {
					if tier != "thorough" {
						found := false
						for _, l := range lifecycle {
							found = found || l == a3
						}
						if !found {
							continue
						}
					}
					out = append(out, apiCase{Base: b.Name, Calls: []string{a, a2, a3}})
				}
			}
		}
	}
	if tier == "thorough" {
		for _, b := range apiBases {
			for _, a := range lifecycle {
				for _, a2 := range lifecycle {
					for _, a3 := range lifecycle {
						for _, a4 := range lifecycle {
							out = append(out, apiCase{Base: b.Name, Calls: []string{a, a2, a3, a4}})
						}
					}
				}
			}
		}
	}
	return out
}

func apiWorker() {
	tier := os.Args[2]
	var shard, n int
	var dl int64
	fmt.Sscan(os.Args[3], &dl)
	fmt.Sscan(os.Args[4], &shard)
	fmt.Sscan(os.Args[5], &n)
	res := apiShardResult{Outcomes: map[string]int{}}
	seen := map[string]bool{}
	for i, cs := range apiCases(tier) {
		if i%n != shard {
			continue
		}
		if time.Now().UnixNano() > dl {
			res.Deadline = true
			break
		}
		o := runAPICase(cs)
		res.Cases++
		if o.Sig != "" {
			if !seen[o.Sig] {
				seen[o.Sig] = true
				res.Fails = append(res.Fails, apiFail{o.Sig, o.Detail, cs})
			}
			res.Outcomes["fail:"+o.Sig]++
		} else {
			res.Outcomes[o.Digest]++
		}
	}
	b, _ := json.Marshal(&res)
	os.Stdout.Write(b)
}

func init() {
	checks["C18"] = func(prop, tier string) int {
		t0 := time.Now()
		rep := common.NewReport(prop)
		secs := 300
		if tier == "thorough" {
			secs = 1200
		}
		outs, err := explore.RunShards([]string{"apiworker", tier, fmt.Sprint(time.Now().Add(time.Duration(secs) * time.Second).UnixNano())}, 0)
		if err != nil {
			fmt.Println("INFRA:", err)
			return 2
		}
		cases, deadline := 0, false
		digests := map[string]int{}
		best := map[string]apiFail{}
		for _, o := range outs {
			var r apiShardResult
			if err := json.Unmarshal(o, &r); err != nil {
				fmt.Println("INFRA: bad shard output:", err)
				return 2
			}
			cases += r.Cases
			deadline = deadline || r.Deadline
			for k, v := range r.Outcomes {
				digests[k] += v
			}
			for _, f := range r.Fails {
				if old, ok := best[f.Sig]; !ok || len(f.Case.Calls) < len(old.Case.Calls) {
					best[f.Sig] = f
				}
			}
		}
		for _, f := range best {
			// the same case must fail identically again
			for i := 0; i < 3; i++ {
				if o := runAPICase(f.Case); o.Sig != f.Sig {
					fmt.Printf("INFRA: API case %v failed with %q, then with %q\n", f.Case, f.Sig, o.Sig)
					return 2
				}
			}
			params, _ := json.Marshal(f.Case)
			rep.Add(&common.Violation{Property: prop, Signature: f.Sig, Detail: f.Detail}, &common.Replay{Engine: "api", Suite: f.Case.Base, Params: params})
		}
		if cases == 0 {
			fmt.Println("INFRA: no case executed")
			return 2
		}
		all := apiCases(tier)
		samples := []any{all[0], all[len(all)/2], all[len(all)-1]}
		ev := &common.Evidence{PropertyID: prop, Tier: tier, Seed: common.Seed(), Level: "exploration", WallS: time.Since(t0).Seconds(), Violations: len(rep.Violations),
			Coverage: map[string]any{"evaluations": cases, "distinct_nontrivial": len(digests),
				"rule":    "every single call, every ordered pair of calls (sequential and concurrent) and every triple whose first two calls are lifecycle/mutating calls (thorough: any third call, plus 4-call lifecycle sequences) from the menu, issued on the target node in each of 9 base states of a 3-voter cluster (+1 cold spare); after the calls the cluster runs on through default events and an election timeout on every node; distinct_nontrivial = number of distinct final states reached (by canonical state key) plus failure classes",
				"samples": samples, "bases": len(apiBases), "menu": apiMenu, "exhaustive": !deadline, "cases_planned": len(all)},
			Assumptions: []string{"canonical goroutine interleaving inside each step (schedule enumeration of API calls against background activity is part of C20's scenarios)", "futures are polled, Await's own select is not driven by virtual time"}}
		if err := ev.Write(); err != nil {
			fmt.Println("INFRA:", err)
			return 2
		}
		fmt.Printf("C18 %s: cases=%d distinct-final-states=%d exhaustive=%t wall=%.1fs\n", tier, cases, len(digests), !deadline, time.Since(t0).Seconds())
		return rep.Finish()
	}
	replayers["api"] = func(r *common.Replay, path string) int {
		var cs apiCase
		if err := json.Unmarshal(r.Params, &cs); err != nil {
			fmt.Println("INFRA:", err)
			return 2
		}
		o := runAPICase(cs)
		if o.Sig == "" {
			fmt.Println("replay finished without a violation")
			return 0
		}
		fmt.Printf("VIOLATION property=C18 replay=%s signature=%q detail=%q\n", path, o.Sig, strings.SplitN(o.Detail, "\n", 2)[0])
		return 1
	}
}
