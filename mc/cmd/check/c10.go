package main

// C10 (and the other SCHED-engine properties): schedule enumeration.

import (
	"encoding/json"
	"fmt"
	"os"
	"time"

	"github.com/jmsadair/raft/verifshim/vsched"
	"verif/mc/common"
	"verif/mc/explore"
	"verif/mc/monitor"
	"verif/mc/sched"
	"verif/mc/sim"
)

func snapMonitors() []monitor.Monitor {
	a := &monitor.Apply{}
	cm := &monitor.Commit{}
	return []monitor.Monitor{a, cm, &monitor.Snapshots{A: a, C: cm}, &monitor.Leader{}, &monitor.LogMatch{}, &monitor.Linear{A: a}}
}

// snapshot monitors plus the durability monitor of C04
func snapDurMonitors() []monitor.Monitor {
	a := &monitor.Apply{}
	cm := &monitor.Commit{}
	return []monitor.Monitor{a, cm, &monitor.Snapshots{A: a, C: cm}, &monitor.Leader{}, &monitor.LogMatch{}, &monitor.Linear{A: a}, &monitor.Durable{A: a}}
}

var scenarios = map[string]*sched.Scenario{}

func regScenario(s *sched.Scenario) {
	if s.Monitors == nil {
		s.Monitors = snapMonitors
	}
	scenarios[s.Name] = s
}

func init() {
	// A1: single node, snapshot threshold 2, three writes submitted one after
	// another; snapshotLoop/takeSnapshot races with applyLoop.
	regScenario(&sched.Scenario{Name: "snap1-seq", Cfg: sim.Config{Voters: 1, SnapAt: 2},
		Prefix: sim.MustParse("timeout n0"),
		Steps:  [][]sim.Event{sim.MustParse("write n0"), sim.MustParse("write n0"), sim.MustParse("write n0"), sim.MustParse("crash n0"), sim.MustParse("restart n0"), sim.MustParse("timeout n0"), sim.MustParse("write n0")}})
	// A2: the three writes are submitted concurrently.
	regScenario(&sched.Scenario{Name: "snap1-par", Cfg: sim.Config{Voters: 1, SnapAt: 2},
		Prefix: sim.MustParse("timeout n0"),
		Steps:  [][]sim.Event{sim.MustParse("write n0", "write n0", "write n0"), sim.MustParse("crash n0"), sim.MustParse("restart n0"), sim.MustParse("timeout n0"), sim.MustParse("write n0")}})
	// A3: same with a payload above the 32 KiB chunk size.
	regScenario(&sched.Scenario{Name: "snap1-big", Cfg: sim.Config{Voters: 1, SnapAt: 2, SnapPad: 33 * 1024},
		Prefix: sim.MustParse("timeout n0"),
		Steps:  [][]sim.Event{sim.MustParse("write n0", "write n0"), sim.MustParse("write n0"), sim.MustParse("crash n0"), sim.MustParse("restart n0")}})

	// M: a second membership request races with the commit and application of a removal
	regScenario(&sched.Scenario{Name: "mem-race", Cfg: sim.Config{Voters: 3, Spares: 1}, Monitors: memberMonitors,
		Prefix: append(append([]sim.Event{}, seedLeader3...), sim.MustParse("write n0", "remove n0 a=1", "deliver 0>2:AE#3")...),
		Steps:  [][]sim.Event{sim.MustParse("reply 0>2:AE#3", "api n0 Add:3:voter"), sim.MustParse("rt 0>1:AE#3"), sim.MustParse("beat n0")}})
	// B: a lagging follower applies entries while a snapshot is being installed.
	lag := append(append([]sim.Event{}, seedLeader3...), sim.MustParse(
		"isolate n2", "write n0", "rt 0>1:AE#2", "rt 0>1:AE#3", "write n0", "rt 0>1:AE#4", "rt 0>1:AE#5",
		"write n0", "rt 0>1:AE#6", "rt 0>1:AE#7", "heal")...)
	// B1: the follower lacks the boundary entry: Restore + DiscardEntries while Apply(3) may be in flight
	regScenario(&sched.Scenario{Name: "inst3-restore", Cfg: sim.Config{Voters: 3, SnapAt: 2}, Prefix: lag,
		Steps: [][]sim.Event{sim.MustParse("deliver 0>2:AE#3", "deliver 0>2:IS#0"), sim.MustParse("beat n0"), sim.MustParse("rt 0>2:AE#8"), sim.MustParse("crash n2"), sim.MustParse("restart n2")}})
	// B2: the follower holds the boundary entry: wait for application, then Compact
	regScenario(&sched.Scenario{Name: "inst3-compact", Cfg: sim.Config{Voters: 3, SnapAt: 2}, Prefix: lag,
		Steps: [][]sim.Event{sim.MustParse("deliver 0>2:AE#5", "deliver 0>2:IS#0"), sim.MustParse("beat n0"), sim.MustParse("rt 0>2:AE#8"), sim.MustParse("crash n2"), sim.MustParse("restart n2")}})

	// R: a read on a freshly elected leader. n1 holds the acknowledged write 3
	// (committed by the cut-off n0) but has not learnt that it is committed; it
	// wins term 2 and appends its no-op (4). A read is submitted before anything
	// of term 2 is committed; the reply that completes both the read's
	// confirmation round and the commit of 4 then wakes commitLoop,
	// readOnlyLoop and applyLoop together.
	newLeader := append(append([]sim.Event{}, seedLeader3...), sim.MustParse(
		"write n0", "deliver 0>1:AE#2", "reply 0>1:AE#2", "isolate n0", "timeout n1", "rt 1>2:RV#0 a=2", "rt 1>2:RV#1")...)
	regScenario(&sched.Scenario{Name: "read-newleader", Cfg: sim.Config{Voters: 3}, Monitors: safetyMonitors, Prefix: newLeader,
		Steps: [][]sim.Event{sim.MustParse("read n1"), sim.MustParse("rt 1>2:AE#0"), sim.MustParse("beat n1"), sim.MustParse("rt 1>2:AE#1"), sim.MustParse("beat n1"), sim.MustParse("rt 1>2:AE#2")}})
	// R': the same with a lease-based read (the reply renews the lease).
	regScenario(&sched.Scenario{Name: "lease-newleader", Cfg: sim.Config{Voters: 3}, Monitors: safetyMonitors, Prefix: newLeader,
		Steps: [][]sim.Event{sim.MustParse("lease n1"), sim.MustParse("rt 1>2:AE#0"), sim.MustParse("beat n1"), sim.MustParse("rt 1>2:AE#1"), sim.MustParse("beat n1"), sim.MustParse("rt 1>2:AE#2")}})
	// G: goroutine schedules of ordinary replication and of a contested election
	// (safety monitors of C01-C08 on every schedule within the bound)
	regScenario(&sched.Scenario{Name: "sched-rep3", Cfg: sim.Config{Voters: 3}, Monitors: safetyMonitors, Prefix: seedLeader3,
		Steps: [][]sim.Event{sim.MustParse("write n0", "write n0"), sim.MustParse("deliver 0>1:AE#2", "deliver 0>2:AE#3"), sim.MustParse("reply 0>1:AE#2", "reply 0>2:AE#3", "write n0"),
			sim.MustParse("deliver 0>1:AE#3", "deliver 0>2:AE#2", "read n0"), sim.MustParse("reply 0>1:AE#3", "reply 0>2:AE#2", "beat n0"), sim.MustParse("flush"),
			sim.MustParse("crash n0"), sim.MustParse("timeout n1"), sim.MustParse("rt 1>2:RV#0 a=2"), sim.MustParse("rt 1>2:RV#1"), sim.MustParse("rt 1>2:AE#0", "write n1"), sim.MustParse("restart n0"), sim.MustParse("flush")}})
	regScenario(&sched.Scenario{Name: "sched-elect3", Cfg: sim.Config{Voters: 3}, Monitors: safetyMonitors,
		Steps: [][]sim.Event{sim.MustParse("timeout n0", "timeout n1"), sim.MustParse("deliver 0>2:RV#0 a=2", "deliver 1>2:RV#0 a=2"), sim.MustParse("reply 0>2:RV#0", "reply 1>2:RV#0"),
			sim.MustParse("deliver 0>2:RV#1", "deliver 1>2:RV#1"), sim.MustParse("reply 0>2:RV#1", "reply 1>2:RV#1"),
			sim.MustParse("flush"), sim.MustParse("write n0", "write n1"), sim.MustParse("flush"), sim.MustParse("timeout n2"), sim.MustParse("flush")}})
	checks["C10"] = func(prop, tier string) int {
		pl := []schedPlan{{"snap1-seq", 3, 90}, {"snap1-par", 2, 60}, {"snap1-big", 2, 60}, {"inst3-restore", 3, 90}, {"inst3-compact", 3, 90}}
		if tier == "thorough" {
			pl = []schedPlan{{"snap1-seq", 4, 600}, {"snap1-par", 3, 500}, {"snap1-big", 3, 400}, {"inst3-restore", 4, 600}, {"inst3-compact", 4, 600}}
		}
		cl := []plan{{"snap3-d2", 80}, {"memsnap3-d2", 70}, {"stalesuffix3-d2", 65}, {"slowsnap3-d2", 40}, {"slowapplysnap3-d2", 40}, {"filesnap3-d2", 60}}
		if tier == "thorough" {
			cl = []plan{{"snap3-d3", 500}, {"memsnap3-d3", 400}, {"bigsnap3-d2", 200}, {"stalesuffix3-d3", 300}, {"slowsnap3-d3", 500}, {"slowapplysnap3-d3", 500}}
		}
		return schedCheckWith(prop, tier, pl, nil, cl)
	}
	replayers["sched"] = func(r *common.Replay, path string) int {
		sc := scenarios[r.Suite]
		if sc == nil {
			fmt.Println("INFRA: unknown scenario", r.Suite)
			return 2
		}
		var ch []int
		json.Unmarshal(r.Params, &ch)
		o := sched.RunOnce(sc, ch)
		code := 0
		for _, v := range o.Violations {
			if v.Property == r.Property {
				fmt.Printf("VIOLATION property=%s replay=%s signature=%q detail=%q\n", v.Property, path, v.Signature, v.Detail)
				code = 1
			}
		}
		if code == 0 {
			fmt.Println("replay finished without a violation of", r.Property)
		}
		return code
	}
}

type schedPlan struct {
	scenario string
	bound    int
	secs     int
}

type schedShardOut struct {
	sched.Result
	Outcomes map[string]int `json:"outcomes"`
}

// schedCheck explores each scenario up to its bound (iterating 0..bound so that
// the first counterexample has the fewest deviations) and writes the evidence.
func schedCheck(prop, tier string, plans []schedPlan, extra map[string]any) int {
	return schedCheckWith(prop, tier, plans, extra, nil)
}

func schedCheckWith(prop, tier string, plans []schedPlan, extra map[string]any, cluster []plan) int {
	t0 := time.Now()
	rep := common.NewReport(prop)
	reported := map[string]bool{}
	cov, code := runSchedPlans(prop, plans, rep, reported)
	if code != 0 {
		return code
	}
	for k, v := range extra {
		cov[k] = v
	}
	if len(cluster) > 0 {
		cc, ex, code := runClusterPlans(prop, cluster, rep, reported)
		if code != 0 {
			return code
		}
		for k, v := range cc {
			cov[k] = v
		}
		if !ex {
			cov["exhaustive"] = false
		}
	}
	ev := &common.Evidence{PropertyID: prop, Tier: tier, Seed: common.Seed(), Level: "exploration", Coverage: cov, WallS: time.Since(t0).Seconds(), Violations: len(rep.Violations),
		Assumptions: []string{"scheduling points are the library's synchronisation operations; C20 checks that no unsynchronised access makes other switch points relevant", "bounded number of non-default decisions per execution"}}
	if err := ev.Write(); err != nil {
		fmt.Println("INFRA:", err)
		return 2
	}
	fmt.Printf("%s %s: executions=%v with-deviation=%v distinct-final-states=%v exhaustive=%v wall=%.1fs\n", prop, tier, cov["evaluations"], cov["distinct_nontrivial"], cov["distinct_final_states"], cov["exhaustive"], time.Since(t0).Seconds())
	return rep.Finish()
}

// runSchedPlans explores each scenario up to its bound and returns the
// coverage counters; violations of prop are added to rep.
func runSchedPlans(prop string, plans []schedPlan, rep *common.Report, reported map[string]bool) (map[string]any, int) {
	var perScenario []map[string]any
	total, preempting := 0, 0
	exhaustive := true
	outcomes := map[string]bool{}
	var samples []any
	for _, pl := range plans {
		sc := scenarios[pl.scenario]
		deadline := time.Now().Add(time.Duration(pl.secs) * time.Second)
		completed := -1
		for bound := 0; bound <= pl.bound; bound++ {
			// many small shards, 16 at a time: a worker's memory is bounded by the
			// size of its shard (the race detector keeps what executions allocated)
			n := 16
			if bound == 0 {
				n = 1
			} else if bound >= 2 {
				n = 256
			}
			outs, err := explore.RunShardsPool([]string{"schedworker", pl.scenario, fmt.Sprint(bound), fmt.Sprint(deadline.UnixNano())}, n, 16)
			if err != nil {
				fmt.Println("INFRA:", err)
				return nil, 2
			}
			execs, hit, maxp, pre := 0, false, 0, 0
			local := map[string]bool{}
			for _, o := range outs {
				var r schedShardOut
				if err := json.Unmarshal(o, &r); err != nil {
					fmt.Println("INFRA: bad shard output:", err)
					return nil, 2
				}
				execs += r.Executions
				pre += r.Preempting
				hit = hit || r.Deadline
				if r.MaxPoints > maxp {
					maxp = r.MaxPoints
				}
				for k := range r.Outcomes {
					local[k] = true
					outcomes[pl.scenario+k] = true
				}
				for _, s := range r.Samples {
					if len(samples) < 5 {
						samples = append(samples, map[string]any{"scenario": pl.scenario, "bound": bound, "choices": s})
					}
				}
				for _, f := range r.Found {
					if f.V.Property != prop {
						continue
					}
					if reported[f.V.Signature] {
						continue
					}
					reported[f.V.Signature] = true
					// root-cause discriminator: does the failure need a
					// non-default scheduling decision (a race window) or does
					// the default schedule already fail (plain logic error)?
					base := f.V.Signature
					f.V.Signature = base + ":needs-preemption"
					if bound == 0 {
						f.V.Signature = base + ":default-schedule"
					}
					// re-run 5x: the same schedule must fail identically (race
					// reports are de-duplicated per process, so the -race flavour
					// confirms in fresh worker processes instead)
					for i := 0; i < 5; i++ {
						if raceEnabled {
							args := []string{"schedconfirm", pl.scenario, f.V.Property, base}
							for _, c := range f.Choices {
								args = append(args, fmt.Sprint(c))
							}
							out, err := explore.RunShards(args, 1)
							if err != nil || len(out) == 0 || string(out[0]) != "yes" {
								fmt.Printf("INFRA: schedule violation %s did not reproduce in a fresh process\n", f.V.Signature)
								return nil, 2
							}
							if i >= 1 {
								break
							}
							continue
						}
						o := sched.RunOnce(sc, f.Choices)
						ok := false
						for _, v := range o.Violations {
							if v.Property == f.V.Property && v.Signature == base {
								ok = true
							}
						}
						if !ok {
							fmt.Printf("INFRA: schedule violation %s did not reproduce\n", f.V.Signature)
							return nil, 2
						}
					}
					params, _ := json.Marshal(f.Choices)
					rep.Add(f.V, &common.Replay{Engine: "sched", Suite: pl.scenario, Params: params})
				}
			}
			total += execs
			preempting += pre
			perScenario = append(perScenario, map[string]any{"scenario": pl.scenario, "bound": bound, "executions": execs, "max_decision_points": maxp, "distinct_final_states": len(local), "deadline_hit": hit})
			if hit {
				exhaustive = false
				break
			}
			completed = bound
		}
		_ = completed
	}
	if total == 0 {
		fmt.Println("INFRA: no schedule executed")
		return nil, 2
	}
	cov := map[string]any{
		"evaluations": total, "distinct_nontrivial": preempting,
		"rule":    "every schedule of each scenario whose number of non-default scheduling decisions is within the bound (iterated 0..bound); decisions are taken at every lock, unlock, condition wait and signal of the library (a started goroutine becomes schedulable at once; starting it is not itself a decision point); non-trivial = executions with at least one non-default decision (each is a distinct decision sequence by construction)",
		"samples": samples, "scenarios": perScenario, "exhaustive": exhaustive, "distinct_final_states": len(outcomes),
	}
	if len(samples) == 0 {
		cov["samples"] = []any{"bound 0 only: the default schedule"}
	}
	return cov, 0
}

func schedWorker() {
	var bound, shard, n int
	var dl int64
	fmt.Sscan(os.Args[3], &bound)
	fmt.Sscan(os.Args[4], &dl)
	fmt.Sscan(os.Args[5], &shard)
	fmt.Sscan(os.Args[6], &n)
	sc := scenarios[os.Args[2]]
	if sc == nil {
		fmt.Fprintln(os.Stderr, "INFRA: unknown scenario", os.Args[2])
		os.Exit(2)
	}
	if raceEnabled {
		sched.MaxExecutions = 6000
	}
	r := sched.Explore(sc, bound, time.Unix(0, dl), shard, n)
	b, _ := json.Marshal(struct {
		*sched.Result
		Outcomes map[string]int `json:"outcomes"`
	}{r, r.Outcomes})
	os.Stdout.Write(b)
}

func sched1() {
	// dev aid: run one schedule and print what happens
	sc := scenarios[os.Args[2]]
	if sc == nil {
		fmt.Println("unknown scenario")
		os.Exit(2)
	}
	var ch []int
	for _, a := range os.Args[3:] {
		var x int
		fmt.Sscan(a, &x)
		ch = append(ch, x)
	}
	if os.Getenv("VERIF_TRACE") != "" {
		vsched.Trace = func(t *vsched.Task, why string) { fmt.Printf("  run %s (%s)\n", t.String(), why) }
	}
	if os.Getenv("VERIF_DUMP") != "" {
		sched.Debug = func(c *sim.Cluster) { fmt.Print(c.Dump()) }
	}
	o := sched.RunOnce(sc, ch)
	fmt.Printf("points=%d steps=%d final=%s diverged=%q skipped=%q\n", len(o.Points), o.Steps, o.Final, o.Diverged, o.Skipped)
	fmt.Printf("alternatives=%v\n", o.Alternatives())
	for _, v := range o.Violations {
		fmt.Println("VIOLATION", v.Property, v.Signature, v.Detail)
	}
}

// schedConfirm re-runs one schedule in this (fresh) process and prints "yes"
// when the given violation occurs.
func schedConfirm() {
	sc := scenarios[os.Args[2]]
	prop, sig := os.Args[3], os.Args[4]
	var ch []int
	for _, a := range os.Args[5 : len(os.Args)-2] {
		var x int
		fmt.Sscan(a, &x)
		ch = append(ch, x)
	}
	o := sched.RunOnce(sc, ch)
	for _, v := range o.Violations {
		if v.Property == prop && v.Signature == sig {
			fmt.Print("yes")
			return
		}
	}
	fmt.Print("no")
}
