package main

import "fmt"

// Cluster-engine properties: which suites each tier explores.

var untimedAssumptions = []string{
	"bounded: cluster size, per-class event budgets and deviation bound of each suite (listed per suite in coverage.suites)",
	"intra-node goroutine order is canonical (lowest name first, run to quiescence) in the cluster suites; other orders: SCHED scenarios (sched-rep3, sched-elect3 and the property specific ones) enumerate every goroutine schedule within a decision bound",
	"message loss is modelled as unbounded delay; a partition holds messages instead of failing them",
	"storage is the harness' in-memory implementation of the public storage interfaces, except in the suites named file*: those run the cluster on the library's real file-backed log, state and snapshot storages (crashes at quiescent points; crash points inside storage calls: C12-C14)",
	"64-bit state fingerprints: collision probability below 1e-5 for the state counts reached",
}

func init() {
	checks["C01"] = func(prop, tier string) int {
		p := []plan{{"all1", 30}, {"rep2-d3", 30}, {"part2-d4", 40}, {"rep3-d3", 135}, {"crash3-d2", 67}, {"net3-d2", 30}, {"regained5-d2", 70}, {"slowapply3-d2", 30}, {"filecrash3-d2", 30}, {"revote3-d2", 30}, {"regainedelect5-d2", 60}}
		if tier == "thorough" {
			p = []plan{{"regainedelect5-d3", 400}, {"all1", 10}, {"all2", 150}, {"revote3-d4", 300}, {"rep2-d5", 100}, {"rep3-d4", 500}, {"crash3-d3", 300}, {"net3-d3", 120}, {"lead3-d3", 300}, {"rep4-d3", 150}, {"rep5-d2", 60}, {"crash5-d2", 120}, {"part2-d5", 100}, {"part3-d3", 400}, {"part4-d3", 400}, {"regained5-d3", 300}, {"stale5-d3", 300}, {"slowapply3-d3", 400}, {"filecrash3-d3", 300}}
		}
		sp := []schedPlan{{"sched-rep3", 2, 60}}
		if tier == "thorough" {
			sp = []schedPlan{{"sched-rep3", 3, 600}}
		}
		return clusterCheckSched(prop, tier, p, []string{"leader_present", "op_applied_on_2plus_nodes", "restarted_node_up", "op_acked"}, untimedAssumptions, nil, sp)
	}
	checks["C02"] = func(prop, tier string) int {
		p := []plan{{"elect2-d3", 30}, {"elect3-d3", 92}, {"elect4-d2", 35}, {"split3-d3", 30}, {"crash3-d2", 67}, {"crash2-d3", 50}, {"part2-d4", 40}, {"filesplit3-d2", 30}, {"filecrash3-d2", 30}, {"revote3-d2", 30}, {"elect4-d3", 80}, {"crash2-d4", 50}}
		if tier == "thorough" {
			p = []plan{{"revote3-d4", 300}, {"elect2-d6", 200}, {"elect4-d4", 600}, {"elect5-d3", 400}, {"split3-d6", 300}, {"elect3-d4", 500}, {"elect4-d3", 300}, {"elect5-d2", 120}, {"split3-d4", 200}, {"crash3-d3", 300}, {"crash2-d4", 150}, {"crash4-d2", 100}, {"filesplit3-d3", 200}, {"filecrash3-d3", 300}}
		}
		sp := []schedPlan{{"sched-elect3", 2, 60}}
		if tier == "thorough" {
			sp = []schedPlan{{"sched-elect3", 3, 600}}
		}
		return clusterCheckSched(prop, tier, p, []string{"leader_present", "term_3plus", "restarted_node_up"}, untimedAssumptions, nil, sp)
	}
	checks["C07"] = func(prop, tier string) int {
		p := []plan{{"rep3-d3", 135}, {"split3-d2", 30}, {"lead3-d2", 52}, {"elect3-d2", 30}, {"crash3-d2", 67}, {"oldlong3-d2", 37}, {"regainedelect5-d2", 40}}
		if tier == "thorough" {
			p = []plan{{"rep3-d4", 500}, {"split3-d4", 200}, {"lead3-d3", 300}, {"elect3-d4", 400}, {"crash3-d3", 300}, {"rep4-d3", 150}, {"oldlong3-d4", 400}, {"snap3-d3", 300}, {"regainedelect5-d3", 300}}
		}
		sp := []schedPlan{{"sched-rep3", 2, 60}, {"sched-elect3", 2, 60}}
		if tier == "thorough" {
			sp = []schedPlan{{"sched-rep3", 3, 600}, {"sched-elect3", 3, 600}}
		}
		return clusterCheckSched(prop, tier, p, []string{"leader_present", "two_leaders_different_terms", "op_acked"}, untimedAssumptions, nil, sp)
	}
	checks["C03"] = func(prop, tier string) int {
		p := []plan{{"cli3-d2", 35}, {"rep3-d3", 135}, {"net3-d2", 30}, {"pending3-d2", 40}, {"regainedelect5-d2", 60}, {"stoprestart3-d2", 30}, {"slowapply3-d2", 30}, {"nvwrite5-d3", 30}}
		if tier == "thorough" {
			p = []plan{{"cli3-d3", 200}, {"cli3-d4", 600}, {"rep3-d4", 500}, {"net3-d3", 120}, {"all2", 150}, {"rep4-d3", 150}, {"regainedelect5-d3", 400}, {"stoprestart3-d3", 200}, {"slowapply3-d3", 400}, {"nvwrite5-d5", 200}}
		}
		sp := []schedPlan{{"sched-rep3", 2, 60}}
		if tier == "thorough" {
			sp = []schedPlan{{"sched-rep3", 3, 600}}
		}
		return clusterCheckSched(prop, tier, p, []string{"leader_present", "op_acked", "op_applied_on_2plus_nodes"}, untimedAssumptions, nil, sp)
	}
	checks["C04"] = func(prop, tier string) int {
		p := []plan{{"all1", 30}, {"crash2-d3", 50}, {"crash3-d2", 67}, {"lead3-d2", 52}, {"stale5-d2", 72}, {"regained5-d2", 70}, {"part2-d4", 40}, {"restoring3-d3", 60}, {"filecrash3-d2", 30}, {"revote3-d2", 30}}
		if tier == "thorough" {
			p = []plan{{"all1", 10}, {"crash2-d4", 150}, {"crash3-d3", 400}, {"lead3-d3", 400}, {"stale5-d3", 300}, {"crash4-d2", 100}, {"crash5-d2", 150}, {"restoring3-d4", 400}, {"slowsnap3-d3", 400}, {"filecrash3-d3", 300}, {"revote3-d3", 200}}
		}
		sp := []schedPlan{{"sched-rep3", 2, 60}}
		if tier == "thorough" {
			sp = []schedPlan{{"sched-rep3", 3, 600}}
		}
		return clusterCheckSched(prop, tier, p, []string{"leader_present", "op_acked", "restarted_node_up", "node_down"}, untimedAssumptions, nil, sp)
	}
	checks["C05"] = func(prop, tier string) int {
		p := []plan{{"deposed3-d3", 60}, {"read3-d4", 90}, {"nvread5-d3", 60}, {"minread5-d3", 30}}
		if tier == "thorough" {
			p = []plan{{"deposed3-d4", 600}, {"deposed3-d5", 900}, {"read3-d5", 600}, {"nvread5-d5", 300}, {"minread5-d5", 300}}
		}
		sp := []schedPlan{{"read-newleader", 2, 40}}
		if tier == "thorough" {
			sp = []schedPlan{{"read-newleader", 4, 600}}
		}
		return clusterCheckSched(prop, tier, p, []string{"leader_present", "op_acked", "read_served"}, append([]string{"at most one outstanding read-only operation per node (map iteration order inside the read-only loop is not controlled)",
			"SCHED scenario read-newleader: goroutine schedules inside a freshly elected leader (commit, apply and read-only loops woken by one reply) within the decision bound"}, untimedAssumptions...), nil, sp)
	}
	checks["C08"] = func(prop, tier string) int {
		var p []plan
		for i := 0; i < numHV; i++ {
			if tier == "thorough" {
				p = append(p, plan{"hvt-" + fmt.Sprint(i), 90})
			} else {
				p = append(p, plan{"hvq-" + fmt.Sprint(i), 30})
			}
		}
		if tier == "thorough" {
			p = append(p, plan{"split3-d4", 200}, plan{"crash3-d3", 300}, plan{"elect3-d3", 100}, plan{"crash2-d4", 150}, plan{"stale5-d3", 300}, plan{"filesplit3-d3", 200}, plan{"filecrash3-d3", 300})
		} else {
			p = append(p, plan{"split3-d3", 30}, plan{"crash3-d2", 67}, plan{"elect3-d2", 30}, plan{"stale5-d2", 72}, plan{"filesplit3-d2", 30}, plan{"filecrash3-d2", 30})
		}
		sp := []schedPlan{{"sched-elect3", 2, 60}}
		if tier == "thorough" {
			sp = []schedPlan{{"sched-elect3", 3, 600}}
		}
		return clusterCheckSched(prop, tier, p, []string{"leader_present", "restarted_node_up"}, append([]string{"HANDLER suites hv*: one real node booted from preloaded storage, two puppet peers, every event sequence up to 4 (quick) / 5 (thorough) steps over RequestVote/AppendEntries/InstallSnapshot injections (terms T-1..T+1, both candidates, older/equal/newer logs, prevote or real, clock elapsed or not), own timeouts, every answer to its own requests, crash at quiescent points and armed at storage-call boundaries, restart"}, untimedAssumptions...), nil, sp)
	}
	checks["C09"] = func(prop, tier string) int {
		p := []plan{{"mem1-d4", 40}, {"mem2-d3", 50}, {"mem3-d2", 60}, {"memlead3-d2", 80}, {"nvsnaplease4-d3", 40}, {"nvlease5-d4", 30}, {"memsnap3-d2", 70}}
		if tier == "thorough" {
			p = []plan{{"mem1-d5", 200}, {"mem2-d4", 400}, {"mem3-d3", 500}, {"mem3-d4", 900}, {"memlead3-d3", 700}, {"nvsnaplease4-d5", 400}, {"nvlease5-d5", 200}}
		}
		sp := []schedPlan{{"mem-race", 2, 40}}
		if tier == "thorough" {
			sp = []schedPlan{{"mem-race", 3, 300}}
		}
		return clusterCheckSched(prop, tier, p, []string{"leader_present", "op_acked", "config_changed"}, append([]string{"suites nvsnaplease4 / nvlease5 (timed, lease reads at a leader that reaches only non-voting members): a non-voter must not contribute to a leadership confirmation; reported here as C17/...", "suite memsnap3 (membership changes with snapshots): a snapshot must carry the configuration committed at its label, otherwise a node restored from it applies a configuration sequence of its own (reported here as C10/snapshot-wrong-configuration)"}, untimedAssumptions...), []string{"C01", "C02", "C07", "C17", "C10:snapshot-wrong-configuration"}, sp)
	}
	checks["C16"] = func(prop, tier string) int {
		p := []plan{{"sticky3r0-d3", 60}, {"sticky3r1-d2", 50}, {"sticky3r2-d2", 50}, {"rejoin3r0-d4", 30}, {"rejoin3r1-d4", 30}, {"rejoin3r2-d4", 30}, {"stickysnap3-d4", 30}, {"contested3r0-d3", 30}, {"contested3r1-d3", 30}, {"contested3r2-d3", 30}, {"removed3-d4", 30}, {"candcut3-d4", 30}, {"removedcand3-d4", 30}}
		if tier == "thorough" {
			p = []plan{{"sticky3r0-d4", 500}, {"sticky3r1-d4", 500}, {"sticky3r2-d4", 500}, {"rejoin3r0-d5", 300}, {"rejoin3r1-d5", 300}, {"rejoin3r2-d5", 300}, {"stickysnap3-d6", 300}, {"contested3r0-d5", 300}, {"contested3r1-d5", 300}, {"contested3r2-d5", 300}, {"removed3-d6", 300}, {"candcut3-d6", 300}, {"removedcand3-d6", 300}}
		}
		return clusterCheck(prop, tier, p, []string{"leader_present", "minority_campaigned", "node_down"}, []string{
			"timed mode: global clock in heartbeat intervals (election timeout 6, lease 2), messages are delivered within the interval unless a link is cut; election timeouts staggered per node, all rotations enumerated",
			"premise enforced by the alphabet: faults (symmetric/one-directional isolation, heal, crash, restart) only hit the minority node; the leader's heartbeats to the majority are prompt",
			"horizon 36 intervals (6 election timeouts); deviation bound per suite"})
	}
	checks["C17"] = func(prop, tier string) int {
		p := []plan{{"lease3-d3", 80}, {"cutlease3-d3", 100}, {"minlease5-d3", 30}, {"nvlease5-d4", 30}, {"laglease3-d4", 30}, {"nvsnaplease4-d3", 40}}
		if tier == "thorough" {
			p = []plan{{"lease3-d4", 900}, {"cutlease3-d4", 600}, {"cutlease3-d5", 900}, {"minlease5-d5", 300}, {"nvlease5-d6", 300}, {"laglease3-d6", 300}, {"nvsnaplease4-d5", 400}}
		}
		sp := []schedPlan{{"lease-newleader", 2, 40}}
		if tier == "thorough" {
			sp = []schedPlan{{"lease-newleader", 4, 600}}
		}
		return clusterCheckSched(prop, tier, p, []string{"leader_present", "op_acked", "read_served", "two_leaders_different_terms"}, []string{
			"SCHED scenario lease-newleader (untimed): goroutine schedules inside a freshly elected leader whose lease is renewed by the reply that also commits its first entry, within the decision bound",
			"timed mode: synchronised clocks in heartbeat intervals (election timeout 6, lease 2 intervals); every message is delivered within at most one interval (lag events) unless a link is cut, so lease + delay < election timeout",
			"at most one outstanding read per node; horizon 14-30 intervals; deviation bound per suite"}, nil, sp)
	}
	checks["C15"] = func(prop, tier string) int {
		p := []plan{{"live-rep3-d2", 160}, {"live-mem3-d2", 55}, {"live-bigsnap3-d2", 95}, {"live-snap3-d1", 35}, {"live-termgap3-d2", 40}, {"live-readd3-d2", 30}, {"live-eager3-d3", 60}, {"live-mem1-d3", 30}, {"live-rep3all-d2", 150}, {"live-mem3all-d2", 90}}
		if tier == "thorough" {
			p = []plan{{"live-rep3all-d2", 400}, {"live-rep3-d3", 500}, {"live-mem3all-d2", 200}, {"live-mem3-d3", 400}, {"live-bigsnap3all-d2", 300}, {"live-bigsnap3-d3", 400}, {"live-snap3all-d2", 400}, {"live-snap3-d3", 400}, {"live-termgap3-d3", 200}, {"live-readd3-d3", 200}, {"live-eager3-d4", 400}, {"live-mem1-d4", 200}}
		}
		return clusterCheck(prop, tier, p, []string{"leader_present", "op_acked", "continuations", "restarted_node_up"}, []string{
			"liveness as bounded liveness: from every leaf state (quick) / every distinct state (thorough) of the listed explorations a fault-free continuation runs for 150 heartbeat intervals (25 election timeouts): partitions heal, messages are delivered within the interval, election timeouts are staggered per node; premise checked: a majority of the voters is running",
			"start states come from bounded explorations with crashes at storage-call boundaries, partitions, membership changes and snapshots (payloads below and above the 32 KiB chunk size)",
			"a member that is not part of the leader's committed configuration is not required to catch up"})
	}
}
