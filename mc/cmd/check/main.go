package main

import (
	"fmt"
	"os"
	"runtime"
	"runtime/pprof"
	"strings"
	"time"

	"verif/mc/explore"
	"verif/mc/sim"
)

func usage() {
	fmt.Println("usage: check <property> --tier quick|thorough | check replay <file> | check suite <name> [seconds]")
	os.Exit(2)
}

func main() {
	if len(os.Args) < 2 {
		usage()
	}
	switch os.Args[1] {
	case "worker":
		runtime.GOMAXPROCS(1)
		explore.WorkerMain(os.Args[2:], lookupSuite, nil)
		return
	case "replay":
		if len(os.Args) < 3 {
			usage()
		}
		os.Exit(replay(os.Args[2]))
	case "schedworker":
		runtime.GOMAXPROCS(1)
		schedWorker()
		return
	case "c14worker":
		runtime.GOMAXPROCS(1)
		c14Worker()
		return
	case "c14base":
		for i := range c14Scenarios {
			o := runC14(&c14Scenarios[i], nil, true)
			fmt.Printf("%s: sig=%q detail=%.200q calls=%v boot=%v\n", c14Scenarios[i].Name, o.Sig, o.Detail, o.Calls, o.Boot)
			if len(os.Args) > 2 {
				for _, l := range o.Trace {
					fmt.Println("   ", l)
				}
			}
		}
		return
	case "c11worker":
		runtime.GOMAXPROCS(1)
		c11Worker()
		return
	case "apiworker":
		runtime.GOMAXPROCS(1)
		apiWorker()
		return
	case "schedconfirm":
		runtime.GOMAXPROCS(1)
		schedConfirm()
		return
	case "sched1":
		sched1()
		return
	case "script":
		// check script <suite> <event>;<event>;...   (dev aid for writing seeds)
		script(os.Args[2], os.Args[3:])
		return
	case "suite":
		if len(os.Args) < 3 {
			usage()
		}
		secs := 60
		if len(os.Args) > 3 {
			fmt.Sscan(os.Args[3], &secs)
		}
		if os.Getenv("CPUPROF") != "" {
			f, _ := os.Create(os.Getenv("CPUPROF"))
			pprof.StartCPUProfile(f)
			defer pprof.StopCPUProfile()
		}
		devSuite(os.Args[2], secs)
		return
	}
	prop := os.Args[1]
	tier := "quick"
	if t := os.Getenv("VERIF_TIER"); t != "" {
		tier = t
	}
	for i := 2; i < len(os.Args); i++ {
		if os.Args[i] == "--tier" && i+1 < len(os.Args) {
			tier = os.Args[i+1]
		}
		if strings.HasPrefix(os.Args[i], "--tier=") {
			tier = strings.TrimPrefix(os.Args[i], "--tier=")
		}
	}
	if tier != "quick" && tier != "thorough" {
		usage()
	}
	chk, ok := checks[prop]
	if !ok {
		fmt.Println("INFRA: no check for property", prop)
		os.Exit(2)
	}
	os.Exit(chk(prop, tier))
}

func devSuite(name string, secs int) {
	s := lookupSuite(name)
	if s == nil {
		fmt.Println("unknown suite", name)
		os.Exit(2)
	}
	w := 0
	fmt.Sscan(os.Getenv("WORKERS"), &w)
	var props []string
	if ps := os.Getenv("VERIF_PROPS"); ps != "" {
		props = strings.Split(ps, ",")
	}
	res, err := explore.RunSuite(s, explore.Options{Deadline: time.Now().Add(time.Duration(secs) * time.Second), Workers: w, Props: props})
	if err != nil {
		fmt.Println("INFRA:", err)
		os.Exit(2)
	}
	fmt.Printf("suite %s: distinct=%d exhaustive=%t wall=%.1fs frontier=%d@%d\n stats=%+v\n", s.Name, res.Distinct, res.Exhaustive, res.Wall, res.Frontier, res.FrontierDepth, res.Stats)
	seen := map[string]bool{}
	for _, f := range res.Founds {
		k := f.V.Property + ":" + f.V.Signature
		if seen[k] {
			continue
		}
		seen[k] = true
		fmt.Println("FOUND", f.V.Property, f.V.Signature, f.V.Detail)
		var parts []string
		for _, e := range f.Events {
			parts = append(parts, e.String())
		}
		file := fmt.Sprintf("/dev/shm/found-%s-%d.txt", s.Name, len(seen))
		os.WriteFile(file, []byte(strings.Join(parts, "; ")), 0o644)
		fmt.Printf("     path (%d events) written to %s\n", len(parts), file)
	}
}

func script(suite string, args []string) {
	s := lookupSuite(suite)
	if s == nil {
		fmt.Println("unknown suite", suite)
		os.Exit(2)
	}
	x, v := explore.NewExec(s)
	defer x.Close()
	cont := os.Getenv("VERIF_CONT") != ""
	if v != nil {
		for _, w := range x.All {
			fmt.Println("VIOLATION in seed:", w.Property, w.Signature, w.Detail)
		}
		if !cont {
			return
		}
	}
	x.C.B.Deviations = -1
	for _, a := range strings.Split(strings.Join(args, " "), ";") {
		a = strings.TrimSpace(a)
		if a == "" {
			continue
		}
		if a == "dump" {
			fmt.Print(x.C.Dump())
			continue
		}
		if a == "msgs" {
			for _, m := range x.C.Net.Msgs {
				fmt.Printf("  MSG %s state=%d %s -> %s\n", m.ID, m.State, m.ReqCanon(), m.RespCanon())
			}
			continue
		}
		e, err := sim.ParseEvent(a)
		if err != nil {
			fmt.Println(err)
			return
		}
		v, err := x.Apply(e)
		fmt.Println("APPLIED", e, "err:", err)
		if v != nil {
			for _, w := range x.All {
				fmt.Println("VIOLATION", w.Property, w.Signature, w.Detail)
			}
			if !cont {
				return
			}
		}
		if err != nil {
			break
		}
	}
	if s.Leaf != nil && os.Getenv("VERIF_LEAF") != "" {
		if v := s.Leaf(x.C); v != nil {
			fmt.Println("LEAF VIOLATION", v.Property, v.Signature, v.Detail)
		} else {
			fmt.Println("LEAF OK")
		}
		if os.Getenv("VERIF_LEAF") == "dump" {
			fmt.Print(x.C.Dump())
		}
	}
	for i := range x.C.Nodes {
		if vw, ok := x.C.View(i); ok {
			fmt.Printf("  n%d state=%d term=%d voted=%q commit=%d applied=%d log=", i, vw.State, vw.Term, vw.VotedFor, vw.CommitIndex, vw.LastApplied)
			for _, e := range x.C.Nodes[i].Log.Entries[1:] {
				fmt.Printf("%d/%d ", e.Index, e.Term)
			}
			fmt.Println()
		} else {
			fmt.Printf("  n%d down\n", i)
		}
	}
	for _, e := range x.C.Enabled() {
		fmt.Println("  ENABLED", e)
	}
}
