package main

import (
	"fmt"
	"os"
	"runtime"
	"runtime/pprof"
	"strings"
	"time"

	"verif/mc/explore"
)

func usage() {
	fmt.Println("usage: check <property> --tier quick|thorough | check replay <file> | check suite <name> [seconds]")
	os.Exit(2)
}

func main() {
	if len(os.Args) < 2 {
		usage()
	}
	switch os.Args[1] {
	case "worker":
		runtime.GOMAXPROCS(1)
		explore.WorkerMain(os.Args[2:], lookupSuite, nil)
		return
	case "replay":
		if len(os.Args) < 3 {
			usage()
		}
		os.Exit(replay(os.Args[2]))
	case "suite":
		if len(os.Args) < 3 {
			usage()
		}
		secs := 60
		if len(os.Args) > 3 {
			fmt.Sscan(os.Args[3], &secs)
		}
		if os.Getenv("CPUPROF") != "" {
			f, _ := os.Create(os.Getenv("CPUPROF"))
			pprof.StartCPUProfile(f)
			defer pprof.StopCPUProfile()
		}
		devSuite(os.Args[2], secs)
		return
	}
	prop := os.Args[1]
	tier := "quick"
	if t := os.Getenv("VERIF_TIER"); t != "" {
		tier = t
	}
	for i := 2; i < len(os.Args); i++ {
		if os.Args[i] == "--tier" && i+1 < len(os.Args) {
			tier = os.Args[i+1]
		}
		if strings.HasPrefix(os.Args[i], "--tier=") {
			tier = strings.TrimPrefix(os.Args[i], "--tier=")
		}
	}
	if tier != "quick" && tier != "thorough" {
		usage()
	}
	chk, ok := checks[prop]
	if !ok {
		fmt.Println("INFRA: no check for property", prop)
		os.Exit(2)
	}
	os.Exit(chk(prop, tier))
}

func devSuite(name string, secs int) {
	s := lookupSuite(name)
	if s == nil {
		fmt.Println("unknown suite", name)
		os.Exit(2)
	}
	w := 0
	fmt.Sscan(os.Getenv("WORKERS"), &w)
	res, err := explore.RunSuite(s, explore.Options{Deadline: time.Now().Add(time.Duration(secs) * time.Second), Workers: w})
	if err != nil {
		fmt.Println("INFRA:", err)
		os.Exit(2)
	}
	fmt.Printf("suite %s: distinct=%d exhaustive=%t wall=%.1fs frontier=%d@%d\n stats=%+v\n", s.Name, res.Distinct, res.Exhaustive, res.Wall, res.Frontier, res.FrontierDepth, res.Stats)
	seen := map[string]bool{}
	for _, f := range res.Founds {
		k := f.V.Property + ":" + f.V.Signature
		if seen[k] {
			continue
		}
		seen[k] = true
		fmt.Println("FOUND", f.V.Property, f.V.Signature, f.V.Detail)
		for _, e := range f.Events {
			fmt.Println("    ", e)
		}
	}
}
