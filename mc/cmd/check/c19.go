package main

import (
	"verif/mc/codec"
	"verif/mc/common"
)

// C19 Encodings are lossless — engine CODEC (mc/codec).
func init() {
	checks["C19"] = func(prop, tier string) int { return codec.Run(prop, tier) }
	replayers["codec"] = func(r *common.Replay, path string) int { return codec.Replay(r, path) }
}
