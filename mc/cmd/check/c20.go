package main

// C20: SCHED engine built with -race. Hand-offs between goroutines are
// invisible to the detector (norace spin gates), so a report means the two
// accesses are unordered by the library's own synchronisation in the explored
// schedule.

import (
	"fmt"
	"os"
	"path/filepath"
	"sort"
	"strings"
	"verif/mc/explore"

	"verif/mc/common"
	"verif/mc/sched"
	"verif/mc/sim"
)

var raceLogOffset int64

func raceLogPath() string {
	// GORACE=log_path=<p> makes the runtime write to <p>.<pid>
	for _, kv := range strings.Fields(os.Getenv("GORACE")) {
		if strings.HasPrefix(kv, "log_path=") {
			return fmt.Sprintf("%s.%d", strings.TrimPrefix(kv, "log_path="), os.Getpid())
		}
	}
	return ""
}

// topFrames extracts, for each access of a report, the function and file of
// the innermost frame.
func parseRaceReports(text string) [][2][2]string {
	var out [][2][2]string
	for _, block := range strings.Split(text, "WARNING: DATA RACE") {
		lines := strings.Split(block, "\n")
		var acc [][2]string
		for i, l := range lines {
			t := strings.TrimSpace(l)
			if (strings.HasPrefix(t, "Read at") || strings.HasPrefix(t, "Write at") || strings.HasPrefix(t, "Previous read at") || strings.HasPrefix(t, "Previous write at")) && i+2 < len(lines) {
				// innermost frame that is not a runtime helper (map access, slice growth ...)
				j := i + 1
				for j+3 < len(lines) && strings.HasPrefix(strings.TrimSpace(lines[j]), "runtime.") {
					j += 2
				}
				fn := strings.TrimSpace(lines[j])
				file := strings.TrimSpace(lines[j+1])
				acc = append(acc, [2]string{fn, file})
			}
		}
		if len(acc) >= 2 {
			out = append(out, [2][2]string{acc[0], acc[1]})
		}
	}
	return out
}

func libraryFrame(fr [2]string) bool {
	fn, file := fr[0], fr[1]
	if !strings.HasPrefix(fn, "github.com/jmsadair/raft.") && !strings.HasPrefix(fn, "github.com/jmsadair/raft/internal") && !strings.HasPrefix(fn, "github.com/jmsadair/raft/logging") {
		return false
	}
	if strings.Contains(file, "zz_verif_") || strings.Contains(fn, "verifshim") || strings.Contains(fn, ".Verif") {
		return false
	}
	return true
}

func shortFn(fn string) string {
	fn = strings.TrimPrefix(fn, "github.com/jmsadair/raft.")
	if i := strings.Index(fn, "("); i > 0 && !strings.HasPrefix(fn, "(") {
		fn = fn[:i]
	}
	// drop argument lists
	if i := strings.LastIndex(fn, "()"); i > 0 {
		fn = fn[:i]
	}
	return fn
}

func raceAfterRun(choices []int) []*common.Violation {
	p := raceLogPath()
	if p == "" {
		return nil
	}
	st, err := os.Stat(p)
	if err != nil || st.Size() <= raceLogOffset {
		return nil
	}
	f, err := os.Open(p)
	if err != nil {
		return nil
	}
	defer f.Close()
	buf := make([]byte, st.Size()-raceLogOffset)
	f.ReadAt(buf, raceLogOffset)
	raceLogOffset = st.Size()
	var out []*common.Violation
	for _, r := range parseRaceReports(string(buf)) {
		if !libraryFrame(r[0]) || !libraryFrame(r[1]) {
			// an access made by the harness (controller reads, accessors,
			// callbacks): hand-offs are invisible to the detector by design, so
			// these are not races of the library
			continue
		}
		a, b := shortFn(r[0][0]), shortFn(r[1][0])
		pair := []string{a, b}
		sort.Strings(pair)
		out = append(out, &common.Violation{Property: "C20", Signature: "race:" + pair[0] + "<->" + pair[1],
			Detail: fmt.Sprintf("unsynchronised accesses: %s (%s) and %s (%s)", r[0][0], r[0][1], r[1][0], r[1][1])})
	}
	return out
}

func init() {
	api := func(s ...string) []sim.Event { return sim.MustParse(s...) }
	none := func() []monitorList { return nil }
	_ = none
	// 1: election while two clients submit and a third polls Status/Configuration
	regScenario(&sched.Scenario{Name: "race-elect-submit", Cfg: sim.Config{Voters: 3},
		Prefix: api("timeout n0", "rt 0>1:RV#0 a=2", "rt 0>2:RV#0 a=2"),
		Steps: [][]sim.Event{api("rt 0>1:RV#1", "api n0 Submit:0:data:long", "api n0 Status", "api n0 Configuration"),
			api("rt 0>1:AE#0", "api n0 Submit:0:data:long", "api n0 Submit:1:data:long", "api n1 Status"),
			api("rt 0>2:AE#0", "rt 0>1:AE#1", "api n0 Status", "beat n0")}})
	// 2: snapshot while applying and submitting (single node, threshold 2)
	regScenario(&sched.Scenario{Name: "race-snapshot", Cfg: sim.Config{Voters: 1, SnapAt: 2},
		Prefix: api("timeout n0"),
		Steps:  [][]sim.Event{api("write n0", "write n0", "api n0 Status"), api("write n0", "api n0 Submit:2:data:long", "api n0 Configuration")}})
	// 3: membership changes during submissions
	regScenario(&sched.Scenario{Name: "race-membership", Cfg: sim.Config{Voters: 2, Spares: 1},
		Prefix: api("timeout n0", "rt 0>1:RV#0 a=2", "rt 0>1:RV#1", "rt 0>1:AE#0", "rt 0>1:AE#1"),
		Steps: [][]sim.Event{api("api n0 Add:2:nonvoter", "write n0", "api n0 Configuration"), api("rt 0>1:AE#2", "rt 0>2:AE#0", "api n0 Status"),
			api("rt 0>1:AE#3", "api n0 Add:2:voter", "api n0 Remove:1", "write n0")}})
	// 4: Stop during activity, then Restart and Start
	regScenario(&sched.Scenario{Name: "race-stop", Cfg: sim.Config{Voters: 3}, Prefix: seedLeader3,
		Steps: [][]sim.Event{api("write n0", "api n0 Stop", "api n0 Status", "beat n0"), api("api n0 Restart", "api n0 Status"), api("api n1 Stop", "rt 0>1:AE#2", "api n1 Status")}})
	// 5: lagging follower receiving a snapshot while entries arrive
	lag := append(append([]sim.Event{}, seedLeader3...), sim.MustParse(
		"isolate n2", "write n0", "rt 0>1:AE#2", "rt 0>1:AE#3", "write n0", "rt 0>1:AE#4", "rt 0>1:AE#5",
		"write n0", "rt 0>1:AE#6", "rt 0>1:AE#7", "heal")...)
	regScenario(&sched.Scenario{Name: "race-install", Cfg: sim.Config{Voters: 3, SnapAt: 2}, Prefix: lag,
		Steps: [][]sim.Event{api("deliver 0>2:AE#3", "deliver 0>2:IS#0", "api n2 Status"), api("beat n0", "api n2 Configuration")}})
	// 6: lifecycle calls racing on a fresh node (Bootstrap while starting)
	regScenario(&sched.Scenario{Name: "race-bootstrap", Cfg: sim.Config{Voters: 1, Spares: 1, Cold: true},
		Steps: [][]sim.Event{api("api n1 Start", "api n1 Bootstrap:ok", "api n1 Status"), api("api n1 Configuration", "api n1 Stop", "api n1 Bootstrap:ok"), api("api n1 Start", "api n1 Bootstrap:ok")}})

	// 7: a membership change is committed and applied (second reply) while the
	// same node takes the snapshot triggered by the first reply
	snapMem := api("timeout n0", "rt 0>1:RV#0 a=2", "rt 0>1:RV#1", "rt 0>1:AE#0", "rt 0>1:AE#1",
		"write n0", "write n0", "api n0 Add:2:nonvoter", "deliver 0>1:AE#2", "deliver 0>1:AE#3", "deliver 0>1:AE#4")
	regScenario(&sched.Scenario{Name: "race-snapshot-membership", Cfg: sim.Config{Voters: 2, Spares: 1, SnapAt: 2}, Prefix: snapMem,
		Steps: [][]sim.Event{api("reply 0>1:AE#3", "reply 0>1:AE#4"), api("reply 0>1:AE#2", "api n0 Configuration")}})
	// 8: file-backed log: compaction while requests that carry the surviving
	// entries are still with the transport (n2 is unreachable)
	inflight := append(append([]sim.Event{}, seedLeader3...), sim.MustParse("isolate n2", "write n0", "write n0", "write n0")...)
	regScenario(&sched.Scenario{Name: "race-file-compact", Cfg: sim.Config{Voters: 3, SnapAt: 2, FileStore: true}, Prefix: inflight,
		Steps: [][]sim.Event{api("rt 0>1:AE#2", "api n0 Status"), api("rt 0>1:AE#4", "write n0"), api("beat n0", "api n0 Configuration")}})

	checks["C20"] = func(prop, tier string) int {
		if !raceEnabled {
			fmt.Println("INFRA: C20 needs the -race build (bin/check builds it)")
			return 2
		}
		if os.Getenv("GORACE") == "" {
			// re-exec with the detector's log redirected so that reports can be
			// attributed to the schedule that produced them
			dir, _ := os.MkdirTemp(scratchDir(), "verif-race.")
			defer os.RemoveAll(dir)
			os.Setenv("GORACE", "halt_on_error=0 exitcode=0 suppress_equal_stacks=0 suppress_equal_addresses=0 log_path="+dir+"/race")
		}
		pl := []schedPlan{{"race-elect-submit", 1, 120}, {"race-snapshot", 1, 90}, {"race-membership", 1, 120}, {"race-stop", 1, 120}, {"race-install", 1, 90}, {"race-bootstrap", 1, 90}, {"race-snapshot-membership", 2, 120}, {"race-file-compact", 1, 90}}
		if tier == "thorough" {
			pl = []schedPlan{{"race-elect-submit", 2, 300}, {"race-snapshot", 2, 200}, {"race-membership", 2, 300}, {"race-stop", 2, 300}, {"race-install", 2, 200}, {"race-bootstrap", 2, 200}, {"race-snapshot-membership", 2, 300}, {"race-file-compact", 2, 300}}
		}
		return schedCheck(prop, tier, pl, map[string]any{"race_detector": "go build -race; hand-offs via //go:norace spin gates"})
	}
}

type monitorList struct{}

var schedDirSeq int

func init() {
	explore.ScratchDir = func() string {
		schedDirSeq++
		return filepath.Join(scratchDir(), fmt.Sprintf("verif-exec.%d.%d", os.Getpid(), schedDirSeq))
	}
	sched.ScratchDir = func() string {
		schedDirSeq++
		return filepath.Join(scratchDir(), fmt.Sprintf("verif-sched.%d.%d", os.Getpid(), schedDirSeq))
	}
}

func scratchDir() string {
	if st, err := os.Stat("/dev/shm"); err == nil && st.IsDir() {
		return "/dev/shm"
	}
	return os.TempDir()
}
