package main

// C06, HANDLER engine: every AppendEntries request of a bounded domain against
// every follower state of a bounded domain, by direct calls of the exported
// handler on a real node booted from preloaded storage.

import (
	"encoding/json"
	"fmt"
	"os"
	"time"

	"github.com/jmsadair/raft"
	"verif/mc/common"
	"verif/mc/explore"
	"verif/mc/sim"
)

type c06Case struct {
	F    []uint64 `json:"follower_terms"` // terms of entries at index 2.. (index 1 is the configuration, term 1)
	K    uint64   `json:"compacted_through"`
	C    uint64   `json:"commit"`
	FT   uint64   `json:"follower_term"`
	S    []uint64 `json:"sender_terms"`
	Reqs []c06Req `json:"requests"`
}

type c06Req struct {
	Term   uint64 `json:"term"`
	Prev   uint64 `json:"prev_index"`
	Q      uint64 `json:"last_entry_index"` // entries prev+1..Q of the sender log
	Commit uint64 `json:"leader_commit"`
}

type c06Result struct {
	Cases      int            `json:"cases"`
	Calls      int            `json:"calls"`
	Accepted   int            `json:"accepted"`
	Truncating int            `json:"truncating"`
	States     int            `json:"follower_states"`
	Pairs      int            `json:"pairs"`
	Outcomes   map[string]int `json:"outcomes"`
	Fails      []c06Fail      `json:"fails"`
	Deadline   bool           `json:"deadline"`
	Samples    []c06Case      `json:"samples"`
}

type c06Fail struct {
	Sig    string  `json:"sig"`
	Detail string  `json:"detail"`
	Case   c06Case `json:"case"`
}

// seqs lists every non-decreasing term sequence of length 0..L over 1..3,
// shortest first.
func termSeqs(L int) [][]uint64 {
	out := [][]uint64{{}}
	var rec func(cur []uint64, n int)
	rec = func(cur []uint64, n int) {
		if len(cur) == n {
			out = append(out, append([]uint64(nil), cur...))
			return
		}
		lo := uint64(1)
		if len(cur) > 0 {
			lo = cur[len(cur)-1]
		}
		for t := lo; t <= 3; t++ {
			rec(append(cur, t), n)
		}
	}
	for n := 1; n <= L; n++ {
		rec(nil, n)
	}
	return out
}

// termAt returns the term of absolute index i in a log given by its term
// sequence (index 1 = configuration, term 1); 0 if absent.
func termAt(seq []uint64, i uint64) uint64 {
	if i == 0 {
		return 0
	}
	if i == 1 {
		return 1
	}
	if int(i-2) < len(seq) {
		return seq[i-2]
	}
	return 0
}

func lastIdx(seq []uint64) uint64 { return uint64(len(seq)) + 1 }

func entryFor(i, term uint64) raft.LogEntry {
	if i == 1 {
		return raft.LogEntry{Index: 1, Term: 1, EntryType: raft.ConfigurationEntry, Data: sim.ConfData(3, 1)}
	}
	return raft.LogEntry{Index: i, Term: term, EntryType: raft.OperationEntry, Data: []byte(fmt.Sprintf("%d.%d", i, term))}
}

// compatible: Log Matching between the two logs, and the sender holds the
// follower's committed prefix.
func compatible(f, s []uint64, commit uint64) bool {
	for i := uint64(1); i <= commit; i++ {
		if termAt(s, i) != termAt(f, i) {
			return false
		}
	}
	hi := lastIdx(f)
	if lastIdx(s) < hi {
		hi = lastIdx(s)
	}
	same := false
	for i := hi; i >= 2; i-- {
		eq := termAt(f, i) == termAt(s, i)
		if same && !eq {
			return false
		}
		if eq {
			same = true
		}
	}
	return true
}

type c06Node struct {
	c *sim.Cluster
}

func bootFollower(f []uint64, k, commit, ft uint64) *sim.Cluster {
	p := sim.Preload{Peers: 3, Term: ft, HasState: true}
	if k > 0 {
		p.SnapIdx, p.SnapTerm = k, termAt(f, k)
		for i := uint64(2); i <= k; i++ {
			p.SnapList = append(p.SnapList, sim.Applied{Index: i, Term: termAt(f, i), Data: fmt.Sprintf("%d.%d", i, termAt(f, i))})
		}
	}
	for i := k + 1; i <= lastIdx(f); i++ {
		p.Entries = append(p.Entries, entryFor(i, termAt(f, i)))
	}
	c := sim.NewSingle(p, sim.Budget{})
	if commit > k {
		// bring the commit index up through public behaviour: a heartbeat of the
		// legitimate leader of the follower's term whose log equals the follower's
		last := lastIdx(f)
		c.Inject(1, "AE", func(m *sim.Msg) {
			m.AE = raft.AppendEntriesRequest{LeaderID: "n1", Term: ft, PrevLogIndex: last, PrevLogTerm: termAt(f, last), LeaderCommit: commit}
		})
	}
	return c
}

func logOf(c *sim.Cluster) map[uint64]raft.LogEntry {
	out := map[uint64]raft.LogEntry{}
	es := c.Nodes[0].Log.Entries
	for _, e := range es[1:] {
		out[e.Index] = e
	}
	return out
}

func sameEntry(a, b raft.LogEntry) bool {
	return a.Index == b.Index && a.Term == b.Term && a.EntryType == b.EntryType && (string(a.Data) == string(b.Data) || sim.CanonEntry(&a) == sim.CanonEntry(&b))
}

// callAE performs one handler call and checks the per-call oracle.
func callAE(c *sim.Cluster, s []uint64, rq c06Req, k uint64) (sig, detail, outcome string) {
	v0, _ := c.View(0)
	old := logOf(c)
	oldFirst := c.Nodes[0].Log.Entries[0].Index
	req := raft.AppendEntriesRequest{LeaderID: "n1", Term: rq.Term, PrevLogIndex: rq.Prev, PrevLogTerm: termAt(s, rq.Prev), LeaderCommit: rq.Commit}
	for i := rq.Prev + 1; i <= rq.Q; i++ {
		e := entryFor(i, termAt(s, i))
		req.Entries = append(req.Entries, &e)
	}
	m := c.Inject(1, "AE", func(m *sim.Msg) { m.AE = req })
	if len(c.Problems) > 0 {
		return "panic", c.Problems[0], "panic"
	}
	if c.Nodes[0].Fatal != "" {
		return "fatal", "handler ended in the library's fatal path: " + c.Nodes[0].Fatal, "fatal"
	}
	if m.Err != nil {
		return "handler-error", "handler returned an error", "error"
	}
	resp := m.AEr
	v1, _ := c.View(0)
	now := logOf(c)
	if resp.Term < v0.Term {
		return "reply-term-below-node-term", fmt.Sprintf("reply term %d < node term %d", resp.Term, v0.Term), ""
	}
	if v1.Term < v0.Term {
		return "term-decreased", fmt.Sprintf("node term went from %d to %d", v0.Term, v1.Term), ""
	}
	if v1.CommitIndex < v0.CommitIndex {
		return "commit-decreased", fmt.Sprintf("commit index went from %d to %d", v0.CommitIndex, v1.CommitIndex), ""
	}
	if !resp.Success {
		if len(now) != len(old) || c.Nodes[0].Log.Entries[0].Index != oldFirst {
			return "rejected-but-log-changed", fmt.Sprintf("rejected request changed the log from %d to %d entries", len(old), len(now)), ""
		}
		for i, e := range old {
			if !sameEntry(now[i], e) {
				return "rejected-but-log-changed", fmt.Sprintf("rejected request changed entry %d", i), ""
			}
		}
		if v1.CommitIndex != v0.CommitIndex {
			return "rejected-but-commit-changed", fmt.Sprintf("rejected request moved commit index %d -> %d", v0.CommitIndex, v1.CommitIndex), ""
		}
		return "", "", "reject"
	}
	outcome = "accept"
	// success: agrees with the request's entries
	for _, e := range req.Entries {
		got, ok := now[e.Index]
		if e.Index <= k {
			continue
		}
		if !ok || !sameEntry(got, *e) {
			return "accepted-but-log-disagrees", fmt.Sprintf("after success entry %d is %+v, request had term %d", e.Index, got, e.Term), ""
		}
	}
	// first conflicting index between request and old log
	conflict := uint64(0)
	for _, e := range req.Entries {
		if o, ok := old[e.Index]; ok && o.Term != e.Term {
			conflict = e.Index
			break
		}
	}
	if conflict > 0 {
		outcome = "accept-truncate"
	}
	for i, e := range old {
		if conflict == 0 || i < conflict {
			if got, ok := now[i]; !ok || !sameEntry(got, e) {
				if i <= v0.CommitIndex {
					return "removed-committed-entry", fmt.Sprintf("committed entry %d was removed (no conflict at or below it)", i), ""
				}
				return "removed-non-conflicting-entry", fmt.Sprintf("entry %d (term %d) was removed although nothing at or below it conflicted (first conflict: %d)", i, e.Term, conflict), ""
			}
		}
	}
	verified := rq.Prev + uint64(len(req.Entries))
	limit := v0.CommitIndex
	if verified > limit {
		limit = verified
	}
	if v1.CommitIndex > limit {
		return "commit-past-verified-prefix", fmt.Sprintf("commit index %d exceeds max(old commit %d, prev+len(entries) %d): leaderCommit %d, follower last index %d", v1.CommitIndex, v0.CommitIndex, verified, rq.Commit, lastOf(now, k)), ""
	}
	if v1.CommitIndex > v0.CommitIndex && v1.CommitIndex > rq.Commit {
		return "commit-past-leader-commit", fmt.Sprintf("commit index %d exceeds leaderCommit %d", v1.CommitIndex, rq.Commit), ""
	}
	return "", "", outcome
}

func lastOf(l map[uint64]raft.LogEntry, k uint64) uint64 {
	m := k
	for i := range l {
		if i > m {
			m = i
		}
	}
	return m
}

func c06Requests(s []uint64, ft uint64) []c06Req {
	var out []c06Req
	terms := []uint64{ft, ft + 1}
	if ft > 1 {
		terms = append([]uint64{ft - 1}, terms...)
	}
	for _, t := range terms {
		for p := uint64(0); p <= lastIdx(s); p++ {
			for q := p; q <= lastIdx(s); q++ {
				for lc := uint64(0); lc <= lastIdx(s)+1; lc++ {
					out = append(out, c06Req{Term: t, Prev: p, Q: q, Commit: lc})
				}
			}
		}
	}
	return out
}

func c06Worker(tier string, shard, n int) {
	L, pairL := 3, 2
	deadline := time.Now().Add(300 * time.Second)
	if tier == "thorough" {
		L, pairL = 4, 3
		deadline = time.Now().Add(15 * time.Minute)
	}
	res := c06Result{Outcomes: map[string]int{}}
	seqs := termSeqs(L)
	seen := map[string]bool{}
	fail := func(sig, detail string, cs c06Case) {
		if !seen[sig] {
			seen[sig] = true
			res.Fails = append(res.Fails, c06Fail{sig, detail, cs})
		}
	}
	state := 0
	for _, f := range seqs {
		maxT := uint64(1)
		if len(f) > 0 {
			maxT = f[len(f)-1]
		}
		for k := uint64(0); k <= lastIdx(f); k++ {
			if k == 1 {
				continue // the configuration entry alone is never a snapshot boundary in these states
			}
			for commit := k; commit <= lastIdx(f); commit++ {
				for ft := maxT; ft <= 3; ft++ {
					state++
					if state%n != shard {
						continue
					}
					res.States++
					for _, s := range seqs {
						if !compatible(f, s, commit) {
							continue
						}
						if time.Now().After(deadline) {
							res.Deadline = true
							goto done
						}
						reqs := c06Requests(s, ft)
						for _, rq := range reqs {
							cs := c06Case{F: f, K: k, C: commit, FT: ft, S: s, Reqs: []c06Req{rq}}
							c := bootFollower(f, k, commit, ft)
							sig, detail, outcome := callAE(c, s, rq, k)
							res.Cases++
							res.Calls++
							if sig != "" {
								fail(sig, detail, cs)
							} else {
								res.Outcomes[outcome]++
							}
							if len(res.Samples) < 3 && outcome == "accept-truncate" {
								res.Samples = append(res.Samples, cs)
							}
							c.Teardown()
							// pairs: an older (or the same) request of the same sender history re-delivered after this one
							if sig == "" && len(f) <= pairL && len(s) <= pairL && outcome != "reject" {
								for _, r2 := range reqs {
									if r2.Term != rq.Term || r2.Q > rq.Q || r2.Commit > rq.Commit {
										continue
									}
									c2 := bootFollower(f, k, commit, ft)
									callAE(c2, s, rq, k)
									sig2, d2, _ := callAE(c2, s, r2, k)
									c2.Teardown()
									res.Calls += 2
									res.Pairs++
									if sig2 != "" {
										fail("second-call:"+sig2, d2, c06Case{F: f, K: k, C: commit, FT: ft, S: s, Reqs: []c06Req{rq, r2}})
									}
								}
							}
						}
					}
				}
			}
		}
	}
done:
	b, _ := json.Marshal(&res)
	os.Stdout.Write(b)
}

func init() {
	if len(os.Args) > 4 && os.Args[1] == "c06worker" {
		var shard, n int
		fmt.Sscan(os.Args[3], &shard)
		fmt.Sscan(os.Args[4], &n)
		c06Worker(os.Args[2], shard, n)
		os.Exit(0)
	}
	checks["C06"] = c06Check
	replayers["handler-ae"] = func(r *common.Replay, path string) int {
		var cs c06Case
		if err := json.Unmarshal(r.Params, &cs); err != nil {
			fmt.Println("INFRA:", err)
			return 2
		}
		c := bootFollower(cs.F, cs.K, cs.C, cs.FT)
		defer c.Teardown()
		code := 0
		for i, rq := range cs.Reqs {
			sig, detail, outcome := callAE(c, cs.S, rq, cs.K)
			fmt.Printf("call %d: %+v -> %s %s\n", i, rq, outcome, sig)
			if sig != "" {
				if i > 0 {
					sig = "second-call:" + sig
				}
				fmt.Printf("VIOLATION property=C06 replay=%s signature=%q detail=%q\n", path, sig, detail)
				code = 1
				break
			}
		}
		return code
	}
}

func c06Check(prop, tier string) int {
	t0 := time.Now()
	rep := common.NewReport(prop)
	outs, err := explore.RunShards([]string{"c06worker", tier}, 0)
	if err != nil {
		fmt.Println("INFRA:", err)
		return 2
	}
	total := c06Result{Outcomes: map[string]int{}}
	sigSeen := map[string]bool{}
	for _, o := range outs {
		var r c06Result
		if err := json.Unmarshal(o, &r); err != nil {
			fmt.Println("INFRA: bad shard output:", err)
			return 2
		}
		total.Cases += r.Cases
		total.Calls += r.Calls
		total.States += r.States
		total.Pairs += r.Pairs
		total.Deadline = total.Deadline || r.Deadline
		for k, v := range r.Outcomes {
			total.Outcomes[k] += v
		}
		if len(total.Samples) < 4 {
			total.Samples = append(total.Samples, r.Samples...)
		}
		for _, f := range r.Fails {
			if sigSeen[f.Sig] {
				continue
			}
			sigSeen[f.Sig] = true
			params, _ := json.Marshal(f.Case)
			rep.Add(&common.Violation{Property: prop, Signature: f.Sig, Detail: f.Detail}, &common.Replay{Engine: "handler-ae", Suite: "appendentries", Params: params})
		}
	}
	// cluster part: log matching between persistent logs in every state of cluster runs
	// (filesnap3: on the real file-backed log, where a log that no longer
	// matches what was acknowledged shows at the next restart: C14/restart-failed)
	clusterPlans := []plan{{"rep3-d2", 40}, {"net3-d2", 30}, {"filesnap3-d2", 60}}
	if tier == "thorough" {
		clusterPlans = []plan{{"rep3-d3", 120}, {"net3-d3", 120}, {"crash3-d2", 60}, {"filesnap3-d3", 400}}
	}
	var cstates, ctrans uint64
	for _, pl := range clusterPlans {
		s := lookupSuite(pl.suite)
		res, err := explore.RunSuite(s, explore.Options{Deadline: time.Now().Add(time.Duration(pl.secs) * time.Second), Props: []string{prop, "C14"}})
		if err != nil {
			fmt.Println("INFRA:", err)
			return 2
		}
		for _, f := range res.Founds {
			if f.V.Property == "C14" {
				f.V.Signature = "C14/" + f.V.Signature
				f.V.Property = prop
			}
		}
		cstates += res.Distinct
		ctrans += res.Stats.Transitions
		total.Deadline = total.Deadline || !res.Exhaustive
		for _, f := range res.Founds {
			if f.V.Property == prop && !sigSeen[f.V.Signature] {
				sigSeen[f.V.Signature] = true
				rep.Add(f.V, &common.Replay{Engine: "cluster", Suite: s.Name, Events: explore.EventsJSON(f.Events), Trace: eventStrings(f.Events)})
			}
		}
	}
	if total.Cases == 0 || total.Outcomes["accept-truncate"] == 0 || total.Outcomes["reject"] == 0 {
		fmt.Println("INFRA: vacuous enumeration", total.Outcomes)
		return 2
	}
	distinct := total.Outcomes["accept"] + total.Outcomes["accept-truncate"]
	var samples []any
	for _, s := range total.Samples {
		samples = append(samples, s)
	}
	if len(samples) == 0 {
		samples = append(samples, "none")
	}
	ev := &common.Evidence{PropertyID: prop, Tier: tier, Seed: common.Seed(), Level: "exploration", WallS: time.Since(t0).Seconds(), Violations: len(rep.Violations),
		Coverage: map[string]any{
			"evaluations": total.Calls, "distinct_nontrivial": distinct,
			"rule":    "every (follower log, compacted prefix, commit index, follower term) x every Log-Matching-compatible sender log holding the follower's committed prefix x every request (term lower/equal/higher, every prev index, every contiguous entries window starting at prev+1, every leaderCommit 0..last+1) within the length bound, plus ordered pairs (an older request of the same sender re-delivered after a newer one) for the shorter logs; each case is a fresh real node booted from preloaded storage; non-trivial = the request was accepted (log or commit index could change); all cases are distinct by construction",
			"samples": samples, "follower_states": total.States, "single_request_cases": total.Cases, "request_pairs": total.Pairs,
			"outcomes": total.Outcomes, "exhaustive": !total.Deadline, "max_log_length": map[string]int{"quick": 4, "thorough": 5}[tier],
			"cluster_states": cstates, "cluster_transitions": ctrans,
		},
		Assumptions: []string{"logs up to 4 (quick) / 5 (thorough) entries over 3 terms; entry content is a function of (index, term)", "requests that contradict the follower's committed prefix are outside the domain (no protocol can survive them)"},
	}
	if err := ev.Write(); err != nil {
		fmt.Println("INFRA:", err)
		return 2
	}
	fmt.Printf("C06 %s: calls=%d cases=%d pairs=%d outcomes=%v exhaustive=%t wall=%.1fs\n", tier, total.Calls, total.Cases, total.Pairs, total.Outcomes, !total.Deadline, time.Since(t0).Seconds())
	return rep.Finish()
}
