package main

import (
	"verif/mc/common"
	"verif/mc/crashfs"
)

// C13: term/vote storage and snapshot storage are atomic and always
// reopenable (CRASH engine; worker dispatch and the replayer are in c12.go).
// The enumerated programs use each storage from one caller; the library does
// not: a leader reads the snapshot storage (to send a snapshot) while its own
// snapshot is being written, a follower while a multi-request transfer is
// open. That concurrent use is covered by cluster suites on the real storages
// with Snapshot / Restore calls that take environment time: a snapshot that
// is visible before it is complete shows there as an undecodable snapshot
// (C10 monitor) or as a failed restart (C14).
func init() {
	checks["C13"] = func(prop, tier string) int {
		crashfs.Extra = func(prop, tier string, rep *common.Report) (map[string]any, bool, string, int) {
			if prop != "C13" {
				return nil, true, "", 0
			}
			cl := []plan{{"fileslowsnap3-d2", 60}}
			if tier == "thorough" {
				cl = []plan{{"fileslowsnap3-d3", 600}}
			}
			cov, ex, code := runClusterPlansAlso(prop, cl, rep, map[string]bool{}, []string{"C10:snapshot-undecodable", "C14"})
			return cov, ex, "cluster part: the snapshot storage is also used by readers while a snapshot is being written (suite fileslowsnap3: real storages, Snapshot / Restore calls take environment time); a partial snapshot that becomes visible shows as C10/snapshot-undecodable or C14/restart-failed", code
		}
		defer func() { crashfs.Extra = nil }()
		return crashfs.RunCheck(prop, tier)
	}
}
