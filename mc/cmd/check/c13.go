package main

import "verif/mc/crashfs"

// C13: term/vote storage and snapshot storage are atomic and always
// reopenable (CRASH engine; worker dispatch and the replayer are in c12.go).
func init() {
	checks["C13"] = func(prop, tier string) int { return crashfs.RunCheck(prop, tier) }
}
