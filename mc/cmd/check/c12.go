package main

import (
	"os"

	"verif/mc/common"
	"verif/mc/crashfs"
)

// C12: the file-backed log recovers from a crash at any point (CRASH engine).
func init() {
	// Worker subprocesses of the crash engine re-execute this binary; main.go
	// does not know the sub-command, so it is dispatched here.
	if len(os.Args) > 1 && os.Args[1] == "crashworker" {
		os.Exit(crashfs.WorkerMain(os.Args[2:]))
	}
	checks["C12"] = func(prop, tier string) int { return crashfs.RunCheck(prop, tier) }
	replayers["crash"] = func(r *common.Replay, path string) int { return crashfs.Replay(r, path) }
}
