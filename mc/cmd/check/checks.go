package main

import (
	"encoding/json"
	"fmt"
	"os"
	"strings"
	"time"

	"verif/mc/common"
	"verif/mc/explore"
	"verif/mc/sim"
)

var checks = map[string]func(prop, tier string) int{}

type plan struct {
	suite string
	secs  int // deadline share
}

// clusterCheck runs the listed suites, reports violations of `props` (the
// property itself first) and writes the evidence file.
func clusterCheck(prop, tier string, plans []plan, need []string, assumptions []string) int {
	return clusterCheckAlso(prop, tier, plans, need, assumptions, nil)
}

// clusterCheckAlso additionally reports violations of the listed other
// properties under this property (signature prefixed with their id): C09
// demands that C01, C02 and C07 keep holding under membership changes.
func clusterCheckAlso(prop, tier string, plans []plan, need []string, assumptions []string, also []string) int {
	return clusterCheckSched(prop, tier, plans, need, assumptions, also, nil)
}

// clusterCheckSched additionally enumerates schedules of SCHED scenarios.
func clusterCheckSched(prop, tier string, plans []plan, need []string, assumptions []string, also []string, schedPlans []schedPlan) int {
	t0 := time.Now()
	rep := common.NewReport(prop)
	cov := map[string]any{}
	var perSuite []map[string]any
	var states, transitions, execs, replayed uint64
	exhaustive := true
	counters := map[string]uint64{}
	var samples []any
	others := map[string]bool{}
	reported := map[string]bool{}
	for _, pl := range plans {
		s := lookupSuite(pl.suite)
		if s == nil {
			fmt.Println("INFRA: unknown suite", pl.suite)
			return 2
		}
		res, err := explore.RunSuite(s, explore.Options{Deadline: time.Now().Add(time.Duration(pl.secs) * time.Second), Props: append([]string{prop}, also...)})
		if err != nil {
			fmt.Println("INFRA:", err)
			return 2
		}
		states += res.Distinct
		transitions += res.Stats.Transitions
		execs += res.Stats.Executions
		replayed += res.Stats.Replayed
		exhaustive = exhaustive && res.Exhaustive
		for k, v := range res.Stats.Counters {
			counters[k] += v
		}
		for _, sm := range res.Stats.Samples {
			if len(samples) < 6 {
				samples = append(samples, map[string]any{"suite": s.Name, "events": sm})
			}
		}
		perSuite = append(perSuite, map[string]any{
			"suite": s.Name, "voters": s.Cfg.Voters, "budget": s.Budget.String(), "seed_events": len(s.Seed),
			"states": res.Distinct, "transitions": res.Stats.Transitions, "executions": res.Stats.Executions,
			"replayed_events": res.Stats.Replayed, "max_depth": res.Stats.MaxDepth, "leaves": res.Stats.Leaves,
			"exhaustive": res.Exhaustive, "wall_s": res.Wall, "event_kinds": res.Stats.EventKinds,
		})
		seen := map[string]bool{}
		for _, f := range res.Founds {
			key := f.V.Property + ":" + f.V.Signature
			if seen[key] {
				continue
			}
			seen[key] = true
			for _, a := range also {
				// "Cxx" adopts every violation of that property, "Cxx:prefix"
				// only those whose signature starts with the prefix
				ap, pre, _ := strings.Cut(a, ":")
				if f.V.Property == ap && strings.HasPrefix(f.V.Signature, pre) {
					f.V.Signature = ap + "/" + f.V.Signature
					f.V.Property = prop
				}
			}
			if f.V.Property != prop {
				if !others[key] {
					others[key] = true
					fmt.Printf("NOTE: suite %s also reached a %s violation (%s); it is reported by that property's check\n", s.Name, f.V.Property, f.V.Signature)
				}
				continue
			}
			if reported[f.V.Signature] {
				continue
			}
			reported[f.V.Signature] = true
			if !confirm(s, f) {
				fmt.Printf("INFRA: violation %s did not reproduce identically on 5 re-executions\n", key)
				return 2
			}
			rep.Add(f.V, &common.Replay{Engine: "cluster", Suite: s.Name, Events: explore.EventsJSON(f.Events), Trace: eventStrings(f.Events)})
		}
	}
	for _, k := range need {
		if counters[k] == 0 {
			fmt.Printf("INFRA: vacuous exploration: no state tagged %q was reached\n", k)
			return 2
		}
	}
	cov["states"] = states
	cov["transitions"] = transitions
	cov["traces_validated_against_impl"] = execs
	cov["replayed_events"] = replayed
	cov["exhaustive"] = exhaustive
	cov["samples"] = samples
	cov["suites"] = perSuite
	cov["state_tags"] = counters
	cov["rule"] = "every environment-event sequence of the real code within the per-class budgets and the deviation bound of each suite; a state is distinct by its canonical key (library state by reflection, storage, goroutines, network, client history, budgets, monitor memory)"
	cov["explanation"] = "executions run the real library under the controlled scheduler; there is no separate protocol model, so every execution is a trace validated against the implementation"
	if len(schedPlans) > 0 {
		sc, code := runSchedPlans(prop, schedPlans, rep, reported)
		if code != 0 {
			return code
		}
		cov["schedule_enumeration"] = sc
	}
	cov["known_findings_matched"] = len(rep.KnownSeen)
	ev := &common.Evidence{PropertyID: prop, Tier: tier, Seed: common.Seed(), Level: "model_checking", Coverage: cov,
		Assumptions: assumptions, WallS: time.Since(t0).Seconds(), Violations: len(rep.Violations)}
	if err := ev.Write(); err != nil {
		fmt.Println("INFRA: evidence:", err)
		return 2
	}
	fmt.Printf("%s %s: states=%d transitions=%d executions=%d exhaustive=%t wall=%.1fs\n", prop, tier, states, transitions, execs, exhaustive, time.Since(t0).Seconds())
	return rep.Finish()
}

func eventStrings(ev []sim.Event) []string {
	var s []string
	for _, e := range ev {
		s = append(s, e.String())
	}
	return s
}

// runPath executes a path on a fresh instance and returns every violation
// met on the way (exploration continues beyond violations of properties other
// than the checked one, so a path may cross several).
func runPath(s *explore.Suite, events []sim.Event) ([]*common.Violation, error) {
	x, v := explore.NewExec(s)
	defer x.Close()
	var all []*common.Violation
	if v != nil {
		all = append(all, x.All...)
	}
	for _, e := range events {
		v, err := x.Apply(e)
		if err != nil {
			return all, err
		}
		if v != nil {
			all = append(all, append([]*common.Violation(nil), x.All...)...)
		}
	}
	return all, nil
}

// runLeafPath executes a path and then the suite's leaf oracle.
func runLeafPath(s *explore.Suite, events []sim.Event) ([]*common.Violation, error) {
	x, _ := explore.NewExec(s)
	defer x.Close()
	for _, e := range events {
		if _, err := x.Apply(e); err != nil {
			return nil, err
		}
	}
	if s.Leaf == nil {
		return nil, nil
	}
	if v := s.Leaf(x.C); v != nil {
		return []*common.Violation{v}, nil
	}
	return nil, nil
}

func confirm(s *explore.Suite, f *explore.Found) bool {
	for i := 0; i < 5; i++ {
		var vs []*common.Violation
		var err error
		if f.Leaf {
			vs, err = runLeafPath(s, f.Events)
		} else {
			vs, err = runPath(s, f.Events)
		}
		if err != nil {
			return false
		}
		ok := false
		for _, v := range vs {
			if (v.Property == f.V.Property && v.Signature == f.V.Signature) || v.Property+"/"+v.Signature == f.V.Signature {
				ok = true
			}
		}
		if !ok {
			return false
		}
	}
	return true
}

func replay(path string) int {
	r, err := common.ReadReplay(path)
	if err != nil {
		fmt.Println("INFRA:", err)
		return 2
	}
	switch r.Engine {
	case "cluster":
		s := lookupSuite(r.Suite)
		if s == nil {
			fmt.Println("INFRA: unknown suite", r.Suite)
			return 2
		}
		var events []sim.Event
		if err := json.Unmarshal(r.Events, &events); err != nil {
			fmt.Println("INFRA:", err)
			return 2
		}
		x, v := explore.NewExec(s)
		defer x.Close()
		var met []*common.Violation
		if v != nil {
			met = append(met, x.All...)
		}
		for i, e := range events {
			fmt.Printf("%3d %s\n", i, e)
			v, err := x.Apply(e)
			if err != nil {
				fmt.Println("INFRA: replay diverged:", err)
				return 2
			}
			if v != nil {
				met = append(met, append([]*common.Violation(nil), x.All...)...)
			}
		}
		if s.Leaf != nil && r.Property == "C15" {
			if lv := s.Leaf(x.C); lv != nil {
				met = append(met, lv)
			}
		}
		if os.Getenv("VERIF_DUMP") != "" {
			fmt.Print(x.C.Dump())
		}
		code := 0
		for _, w := range met {
			if w.Property == r.Property {
				fmt.Printf("VIOLATION property=%s replay=%s signature=%q detail=%q\n", w.Property, path, w.Signature, w.Detail)
				code = 1
			} else {
				fmt.Printf("NOTE: also violates %s (%s)\n", w.Property, w.Signature)
			}
		}
		if code == 0 {
			fmt.Println("replay finished without a violation of", r.Property)
		}
		return code
	}
	if fn, ok := replayers[r.Engine]; ok {
		return fn(r, path)
	}
	fmt.Println("INFRA: unknown replay engine", r.Engine)
	return 2
}

var replayers = map[string]func(r *common.Replay, path string) int{}

// runClusterPlans explores cluster suites on behalf of a check whose main
// engine is another one (C10, C11, C14): violations of prop are added to rep,
// the counters are returned for the evidence file.
func runClusterPlans(prop string, plans []plan, rep *common.Report, reported map[string]bool) (map[string]any, bool, int) {
	return runClusterPlansAlso(prop, plans, rep, reported, nil)
}

// runClusterPlansAlso reports violations of the properties in also under prop
// (signature prefixed with their id), as clusterCheckAlso does.
func runClusterPlansAlso(prop string, plans []plan, rep *common.Report, reported map[string]bool, also []string) (map[string]any, bool, int) {
	var states, transitions, execs uint64
	exhaustive := true
	var per []map[string]any
	counters := map[string]uint64{}
	for _, pl := range plans {
		s := lookupSuite(pl.suite)
		if s == nil {
			fmt.Println("INFRA: unknown suite", pl.suite)
			return nil, false, 2
		}
		res, err := explore.RunSuite(s, explore.Options{Deadline: time.Now().Add(time.Duration(pl.secs) * time.Second), Props: append([]string{prop}, also...)})
		if err != nil {
			fmt.Println("INFRA:", err)
			return nil, false, 2
		}
		for _, f := range res.Founds {
			for _, a := range also {
				ap, pre, _ := strings.Cut(a, ":")
				if f.V.Property == ap && strings.HasPrefix(f.V.Signature, pre) {
					f.V.Signature = ap + "/" + f.V.Signature
					f.V.Property = prop
				}
			}
		}
		states += res.Distinct
		transitions += res.Stats.Transitions
		execs += res.Stats.Executions
		exhaustive = exhaustive && res.Exhaustive
		for k, v := range res.Stats.Counters {
			counters[k] += v
		}
		per = append(per, map[string]any{"suite": s.Name, "budget": s.Budget.String(), "states": res.Distinct, "transitions": res.Stats.Transitions, "exhaustive": res.Exhaustive, "wall_s": res.Wall})
		for _, f := range res.Founds {
			if f.V.Property != prop || reported[f.V.Signature] {
				continue
			}
			reported[f.V.Signature] = true
			if !confirm(s, f) {
				fmt.Printf("INFRA: violation %s did not reproduce identically on 5 re-executions\n", f.V.Signature)
				return nil, false, 2
			}
			rep.Add(f.V, &common.Replay{Engine: "cluster", Suite: s.Name, Events: explore.EventsJSON(f.Events), Trace: eventStrings(f.Events)})
		}
	}
	return map[string]any{"cluster_states": states, "cluster_transitions": transitions, "cluster_executions": execs, "cluster_suites": per, "cluster_state_tags": counters}, exhaustive, 0
}
